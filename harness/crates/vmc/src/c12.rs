//! C12 — aggregations are exact and independent of segmentation.
//! Engine: inputmc aggs — every corpus (sequence of document shapes) x every segment layout
//! (all compositions + deletion variants) x 3 queries x an alphabet of aggregation trees
//! (each exact kind with its options, nesting to depth 3).
//! Oracle 1: an independent aggregator over the matched live JSON documents (matched set and
//! scores are taken from the implementation's own hit list).  Oracle 2: the responses of all
//! layouts of one corpus are equal to each other.
//!
//! The `pub` items of this file are shared with C13 and C30.

use std::collections::{BTreeMap, BTreeSet, HashMap};

use rayon::prelude::*;
use searchlite_core::api::types::{Aggregation, SearchRequest};
use searchlite_core::api::{IndexReader, SearchResult};
use serde_json::{json, Map, Value};

use vcore::ev::Reporter;
use vcore::inp::*;
use vcore::world::*;

use crate::Ctx;

// ---------------------------------------------------------------------------------------------
// Worlds

pub fn agg_schema() -> Value {
  json!({"doc_id_field": "_id",
    "text_fields": [{"name": "body", "analyzer": "default", "stored": true, "indexed": true}],
    "keyword_fields": [{"name": "kw", "stored": true, "indexed": true, "fast": true},
                       {"name": "kw2", "stored": true, "indexed": true, "fast": true}],
    "numeric_fields": [{"name": "n", "i64": true, "fast": true, "stored": true},
                       {"name": "f", "i64": false, "fast": true, "stored": true},
                       {"name": "ts", "i64": true, "fast": true, "stored": true}]})
}

pub fn is_keyword(field: &str) -> bool {
  field == "kw" || field == "kw2"
}
pub fn is_i64(field: &str) -> bool {
  field == "n" || field == "ts"
}

/// Document shapes: keyword single / multi / missing, i64 and f64 single / multi / missing /
/// negative, timestamps aligned and not aligned to whole seconds, one on the next day.
pub fn shapes() -> Vec<Value> {
  vec![
    json!({"body": "a", "kw": "x", "kw2": "p", "n": 1, "f": 1.0, "ts": 0}),
    json!({"body": "a b", "kw": "y", "kw2": "q", "n": 2, "f": 0.5, "ts": 1000}),
    json!({"body": "b", "kw": ["x", "y"], "kw2": "p", "n": [1, 3], "f": [0.5, 2.5], "ts": 1500}),
    json!({"body": "a", "kw2": "q", "n": -1, "f": -1.5, "ts": 2000}),
    json!({"body": "a", "kw": ["y", "z"], "n": [-1, 2], "f": [-1.5, 1.0], "ts": [500, 2500]}),
    json!({"body": "b a", "kw": "z", "kw2": ["p", "q"], "n": 3, "f": 2.0, "ts": 86400500}),
    json!({"body": "a a", "kw": "x"}),
    json!({"body": "a", "kw": "y", "kw2": "q", "n": 2, "f": 1.0, "ts": 1000}),
    // thorough only
    json!({"body": "b a b", "kw": "z", "kw2": "p", "n": 0, "f": 0.25, "ts": 3000}),
    json!({"body": "a", "kw": ["x", "z"], "kw2": ["q", "p"], "n": [3, 1], "f": [2.0, -1.5], "ts": [2000, 0]}),
  ]
}

pub fn mk_world(shape_idx: &[usize], layout: &[usize], deleted: &[String]) -> World {
  let sh = shapes();
  let docs: Vec<Value> = shape_idx
    .iter()
    .enumerate()
    .map(|(i, s)| {
      let mut d = sh[*s].clone();
      d["_id"] = json!(id_of(i));
      d
    })
    .collect();
  let mut w = World::new("aggs", agg_schema(), docs).with_layout(layout.to_vec());
  w.deleted = deleted.to_vec();
  w
}

/// World over explicit documents (ids are assigned by position).
pub fn world_from_docs(docs: &[Value], layout: &[usize], deleted: &[String]) -> World {
  let docs: Vec<Value> = docs
    .iter()
    .enumerate()
    .map(|(i, d)| {
      let mut d = d.clone();
      d["_id"] = json!(id_of(i));
      d
    })
    .collect();
  let mut w = World::new("aggs", agg_schema(), docs).with_layout(layout.to_vec());
  w.deleted = deleted.to_vec();
  w
}

/// A top-level query of the alphabet.
#[derive(Clone, Debug)]
pub struct QSpec {
  pub name: &'static str,
  pub query: Value,
  pub filter: Option<Value>,
  /// every match has the same score (so scores do not depend on per-segment statistics)
  pub const_score: bool,
}

impl QSpec {
  pub fn to_json(&self) -> Value {
    json!({"name": self.name, "query": self.query, "filter": self.filter, "const_score": self.const_score})
  }
  pub fn from_json(v: &Value) -> QSpec {
    QSpec {
      name: "replay",
      query: v["query"].clone(),
      filter: if v["filter"].is_null() { None } else { Some(v["filter"].clone()) },
      const_score: v["const_score"].as_bool().unwrap_or(false),
    }
  }
  pub fn request_json(&self, limit: usize) -> Value {
    let mut r = json!({"query": self.query, "limit": limit});
    if let Some(f) = &self.filter {
      r["filter"] = f.clone();
    }
    r
  }
  pub fn template(&self) -> SearchRequest {
    req(self.request_json(1))
  }
}

pub fn c12_queries() -> Vec<QSpec> {
  vec![
    QSpec { name: "match_all", query: json!({"type": "match_all"}), filter: None, const_score: true },
    QSpec { name: "term_a", query: json!("a"), filter: None, const_score: false },
    QSpec { name: "filter_kw_y", query: json!({"type": "match_all"}), filter: Some(json!({"KeywordEq": {"field": "kw", "value": "y"}})), const_score: true },
  ]
}

/// A matched live document as the oracle sees it.
#[derive(Clone, Debug)]
pub struct MDoc<'a> {
  /// insertion position (= tie-break order "segment / doc id" for every layout of the corpus)
  pub pos: usize,
  pub id: &'a str,
  pub doc: &'a Value,
  pub score: f32,
}

/// Matched documents (with the implementation's scores) from a hit list that covers all matches.
pub fn mdocs_from_hits<'a>(world: &'a World, res: &SearchResult) -> Result<Vec<MDoc<'a>>, String> {
  let mut out = Vec::new();
  for h in &res.hits {
    let pos = world.docs.iter().position(|d| d["_id"].as_str() == Some(h.doc_id.as_str())).ok_or_else(|| format!("hit {} is not a document of the world", h.doc_id))?;
    if world.deleted.iter().any(|x| x == &h.doc_id) {
      return Err(format!("deleted document {} is a hit", h.doc_id));
    }
    out.push(MDoc { pos, id: world.docs[pos]["_id"].as_str().unwrap(), doc: &world.docs[pos], score: h.score });
  }
  out.sort_by_key(|d| d.pos);
  for w in out.windows(2) {
    if w[0].pos == w[1].pos {
      return Err(format!("document {} is returned twice", w[0].id));
    }
  }
  Ok(out)
}

/// Number of segments of the layout that hold at least one of the given documents.
pub fn segments_touched(layout: &[usize], docs: &[MDoc]) -> usize {
  let mut seen = BTreeSet::new();
  for d in docs {
    let mut acc = 0;
    for (si, k) in layout.iter().enumerate() {
      acc += k;
      if d.pos < acc {
        seen.insert(si);
        break;
      }
    }
  }
  seen.len()
}

// ---------------------------------------------------------------------------------------------
// Independent aggregator (oracle 1)

pub const ANY: &str = "__any__";

/// Defect models used only by classifiers (never by the oracle proper).
#[derive(Clone, Copy, Default, Debug)]
pub struct Flags {
  /// fixed-interval date_histogram rounds the bucket up (ceil) instead of down
  pub date_fixed_ceil: bool,
  /// composite histogram source sees no values on an i64 field
  pub comp_hist_i64_empty: bool,
}

pub fn strs(d: &Value, f: &str) -> Vec<String> {
  match d.get(f) {
    Some(Value::String(s)) => vec![s.clone()],
    Some(Value::Array(a)) => a.iter().filter_map(|x| x.as_str().map(|s| s.to_string())).collect(),
    _ => vec![],
  }
}

pub fn nums(d: &Value, f: &str) -> Vec<f64> {
  match d.get(f) {
    Some(Value::Number(n)) => vec![n.as_f64().unwrap()],
    Some(Value::Array(a)) => a.iter().filter_map(|x| x.as_f64()).collect(),
    _ => vec![],
  }
}

fn num_or_str(v: Option<&Value>) -> Option<f64> {
  match v {
    Some(Value::Number(n)) => n.as_f64(),
    Some(Value::String(s)) => s.parse().ok(),
    _ => None,
  }
}

fn nums_missing(d: &Value, f: &str, missing: Option<f64>) -> Vec<f64> {
  let v = nums(d, f);
  if v.is_empty() {
    if let Some(m) = missing {
      return vec![m];
    }
  }
  v
}

/// Milliseconds since the epoch for the date strings of the alphabet: a plain number, or
/// `1970-01-DDTHH:MM:SS[.fff]Z`.
pub fn parse_date_ms(s: &str) -> Option<f64> {
  if let Ok(v) = s.parse::<f64>() {
    return Some(v);
  }
  let (date, time) = s.split_once('T')?;
  let time = time.strip_suffix('Z')?;
  let mut dp = date.split('-');
  let (y, m, d) = (dp.next()?.parse::<i64>().ok()?, dp.next()?.parse::<i64>().ok()?, dp.next()?.parse::<i64>().ok()?);
  if y != 1970 || m != 1 || !(1..=31).contains(&d) {
    return None;
  }
  let mut tp = time.split(':');
  let (hh, mm, ss) = (tp.next()?.parse::<i64>().ok()?, tp.next()?.parse::<i64>().ok()?, tp.next()?.parse::<f64>().ok()?);
  Some(((d - 1) * 86_400_000 + hh * 3_600_000 + mm * 60_000) as f64 + (ss * 1000.0).round())
}

/// "1s", "500ms", "2s", "1d" -> milliseconds
pub fn parse_interval_ms(s: &str) -> Option<i64> {
  let idx = s.find(|c: char| !(c.is_ascii_digit() || c == '.')).unwrap_or(s.len());
  let v: f64 = s[..idx].parse().ok()?;
  let mult = match &s[idx..] {
    "" | "s" => 1000.0,
    "ms" => 1.0,
    "m" => 60_000.0,
    "h" => 3_600_000.0,
    "d" => 86_400_000.0,
    _ => return None,
  };
  Some((v * mult).round() as i64)
}

fn sub_aggs<'a>(agg: &'a Value) -> Vec<(&'a String, &'a Value)> {
  agg.get("aggs").and_then(|a| a.as_object()).map(|m| m.iter().collect()).unwrap_or_default()
}

fn expect_subs(agg: &Value, docs: &[MDoc], fl: Flags) -> Result<Value, String> {
  let mut m = Map::new();
  for (name, sub) in sub_aggs(agg) {
    m.insert(name.clone(), expect(sub, docs, fl)?);
  }
  Ok(Value::Object(m))
}

fn bucket(key: Value, docs: &[MDoc], agg: &Value, fl: Flags) -> Result<Value, String> {
  Ok(json!({"key": key, "doc_count": docs.len(), "aggs": expect_subs(agg, docs, fl)?}))
}

pub fn eval_filter(f: &Value, d: &Value) -> Result<bool, String> {
  let o = f.as_object().ok_or("filter must be an object")?;
  let (k, v) = o.iter().next().ok_or("empty filter")?;
  Ok(match k.as_str() {
    "KeywordEq" => {
      let want = v["value"].as_str().unwrap_or("").to_lowercase();
      strs(d, v["field"].as_str().unwrap_or("")).iter().any(|s| s.to_lowercase() == want)
    }
    "KeywordIn" => {
      let want: Vec<String> = v["values"].as_array().map(|a| a.iter().filter_map(|x| x.as_str().map(|s| s.to_lowercase())).collect()).unwrap_or_default();
      strs(d, v["field"].as_str().unwrap_or("")).iter().any(|s| want.contains(&s.to_lowercase()))
    }
    "I64Range" | "F64Range" => {
      let (lo, hi) = (v["min"].as_f64().ok_or("min")?, v["max"].as_f64().ok_or("max")?);
      nums(d, v["field"].as_str().unwrap_or("")).iter().any(|x| *x >= lo && *x <= hi)
    }
    "And" => {
      let mut all = true;
      for x in v.as_array().ok_or("And")? {
        all &= eval_filter(x, d)?;
      }
      all
    }
    "Or" => {
      let mut any = false;
      for x in v.as_array().ok_or("Or")? {
        any |= eval_filter(x, d)?;
      }
      any
    }
    "Not" => !eval_filter(v, d)?,
    other => return Err(format!("filter {other} not modelled")),
  })
}

#[derive(Clone, Debug, PartialEq)]
enum KeyPart {
  S(String),
  F(f64),
}

fn cmp_parts(a: &[KeyPart], b: &[KeyPart]) -> std::cmp::Ordering {
  for (x, y) in a.iter().zip(b.iter()) {
    let o = match (x, y) {
      (KeyPart::S(p), KeyPart::S(q)) => p.cmp(q),
      (KeyPart::F(p), KeyPart::F(q)) => p.partial_cmp(q).unwrap(),
      (KeyPart::S(_), KeyPart::F(_)) => std::cmp::Ordering::Less,
      (KeyPart::F(_), KeyPart::S(_)) => std::cmp::Ordering::Greater,
    };
    if o != std::cmp::Ordering::Equal {
      return o;
    }
  }
  a.len().cmp(&b.len())
}

/// (lo, hi) bucket-key range covered by extended bounds, for zero-count tolerance in `canon`.
fn hist_bounds_keys(agg: &Value) -> Option<(f64, f64)> {
  let eb = agg.get("extended_bounds").filter(|b| !b.is_null())?;
  match agg["type"].as_str()? {
    "histogram" => {
      let iv = agg["interval"].as_f64()?;
      let off = agg.get("offset").and_then(|o| o.as_f64()).unwrap_or(0.0);
      let k = |v: f64| ((v - off) / iv).floor() * iv + off;
      Some((k(eb["min"].as_f64()?), k(eb["max"].as_f64()?)))
    }
    "date_histogram" => {
      let lo = parse_date_ms(eb["min"].as_str()?)? as i64;
      let hi = parse_date_ms(eb["max"].as_str()?)? as i64;
      let step = agg.get("fixed_interval").and_then(|s| s.as_str()).and_then(parse_interval_ms).unwrap_or(86_400_000);
      let off = agg.get("offset").and_then(|s| s.as_str()).and_then(parse_interval_ms).unwrap_or(0);
      let k = |v: i64| (v - off).div_euclid(step) * step + off;
      Some((k(lo) as f64, k(hi) as f64))
    }
    _ => None,
  }
}

/// Expected canonical response of `agg` over `docs`.  Err(reason) = the documentation does not
/// determine the answer for this input (the case is skipped, never reported).
pub fn expect(agg: &Value, docs: &[MDoc], fl: Flags) -> Result<Value, String> {
  let ty = agg["type"].as_str().ok_or("agg without type")?;
  let field = agg.get("field").and_then(|f| f.as_str()).unwrap_or("");
  match ty {
    "terms" | "rare_terms" => {
      let missing = agg.get("missing").and_then(|m| m.as_str());
      let mut groups: BTreeMap<String, Vec<MDoc>> = BTreeMap::new();
      for d in docs {
        let vals: BTreeSet<String> = strs(d.doc, field).into_iter().collect();
        if vals.is_empty() {
          if let (Some(m), "terms") = (missing, ty) {
            groups.entry(m.to_string()).or_default().push(d.clone());
          }
        } else {
          for v in vals {
            groups.entry(v).or_default().push(d.clone());
          }
        }
      }
      let mut list: Vec<(String, Vec<MDoc>)> = groups.into_iter().collect();
      if ty == "terms" {
        let mdc = agg.get("min_doc_count").and_then(|m| m.as_u64()).unwrap_or(1);
        if mdc == 0 {
          return Err("terms min_doc_count 0 (zero-count terms) is not documented".into());
        }
        list.retain(|(_, v)| v.len() as u64 >= mdc);
        list.sort_by(|a, b| b.1.len().cmp(&a.1.len()).then(a.0.cmp(&b.0)));
        if let Some(sz) = agg.get("size").and_then(|s| s.as_u64()) {
          list.truncate(sz as usize);
        }
      } else {
        let mx = agg.get("max_doc_count").and_then(|m| m.as_u64()).unwrap_or(1);
        list.retain(|(_, v)| v.len() as u64 <= mx);
        list.sort_by(|a, b| a.1.len().cmp(&b.1.len()).then(a.0.cmp(&b.0)));
        if agg.get("size").map(|s| !s.is_null()).unwrap_or(false) {
          return Err("rare_terms size is not in the alphabet".into());
        }
      }
      let mut bs = Vec::new();
      for (k, v) in list {
        bs.push(bucket(json!(k), &v, agg, fl)?);
      }
      Ok(json!({"type": ty, "buckets": bs}))
    }
    "range" | "date_range" => {
      let missing = if ty == "range" {
        num_or_str(agg.get("missing"))
      } else {
        match agg.get("missing") {
          Some(Value::String(s)) => parse_date_ms(s),
          Some(Value::Number(n)) => n.as_f64(),
          _ => None,
        }
      };
      let bound = |v: Option<&Value>| -> Result<Option<f64>, String> {
        match v {
          None | Some(Value::Null) => Ok(None),
          Some(Value::Number(n)) if ty == "range" => Ok(n.as_f64()),
          Some(Value::String(s)) if ty == "date_range" => parse_date_ms(s).map(Some).ok_or_else(|| format!("date {s} not modelled")),
          Some(other) => Err(format!("range bound {other} not modelled")),
        }
      };
      let mut bs = Vec::new();
      for r in agg["ranges"].as_array().ok_or("ranges")? {
        let from = bound(r.get("from"))?;
        let to = bound(r.get("to"))?;
        let mut members = Vec::new();
        for d in docs {
          let vals = nums_missing(d.doc, field, missing);
          if let Some(t) = to {
            if vals.iter().any(|v| *v == t) {
              return Err("a value equals a range `to` bound (inclusive vs exclusive is not documented)".into());
            }
          }
          if vals.iter().any(|v| from.map(|f| *v >= f).unwrap_or(true) && to.map(|t| *v < t).unwrap_or(true)) {
            members.push(d.clone());
          }
        }
        let key = match r.get("key").and_then(|k| k.as_str()) {
          Some(k) => json!(k),
          None => json!(ANY),
        };
        bs.push(bucket(key, &members, agg, fl)?);
      }
      Ok(json!({"type": ty, "buckets": bs}))
    }
    "histogram" => {
      let iv = agg["interval"].as_f64().ok_or("interval")?;
      let off = agg.get("offset").and_then(|o| o.as_f64()).unwrap_or(0.0);
      let mdc = agg.get("min_doc_count").and_then(|m| m.as_u64());
      let bounds = |name: &str| agg.get(name).filter(|b| !b.is_null()).map(|b| (b["min"].as_f64().unwrap(), b["max"].as_f64().unwrap()));
      let ext = bounds("extended_bounds");
      let hard = bounds("hard_bounds");
      let missing = agg.get("missing").and_then(|m| m.as_f64());
      let mut groups: BTreeMap<i64, Vec<MDoc>> = BTreeMap::new();
      for d in docs {
        let mut ids = BTreeSet::new();
        for v in nums_missing(d.doc, field, missing) {
          let id = ((v - off) / iv).floor() as i64;
          if let Some((lo, hi)) = hard {
            let key = id as f64 * iv + off;
            let by_value = v >= lo && v <= hi;
            let by_key = key >= lo && key <= hi;
            if by_value != by_key {
              return Err("hard_bounds: limiting by value and by bucket key disagree (not documented)".into());
            }
            if !by_value {
              continue;
            }
          }
          ids.insert(id);
        }
        for id in ids {
          groups.entry(id).or_default().push(d.clone());
        }
      }
      match (mdc, ext) {
        (Some(0), None) => return Err("min_doc_count 0 without extended_bounds (gap filling is not documented)".into()),
        (Some(0), Some((lo, hi))) => {
          let a = ((lo - off) / iv).floor() as i64;
          let b = ((hi - off) / iv).floor() as i64;
          for id in a..=b {
            groups.entry(id).or_default();
          }
        }
        _ => {}
      }
      let min_keep = match mdc {
        Some(k) => k,
        None => 1,
      };
      let mut bs = Vec::new();
      for (id, v) in groups {
        if (v.len() as u64) < min_keep {
          continue;
        }
        let key = json!(id as f64 * iv + off);
        if v.is_empty() {
          bs.push(json!({"key": key, "doc_count": 0, "aggs": {}}));
        } else {
          bs.push(bucket(key, &v, agg, fl)?);
        }
      }
      Ok(json!({"type": ty, "buckets": bs}))
    }
    "date_histogram" => {
      let fixed = agg.get("fixed_interval").and_then(|s| s.as_str());
      let cal = agg.get("calendar_interval").and_then(|s| s.as_str());
      let (step, is_fixed) = match (fixed, cal) {
        (Some(f), None) => (parse_interval_ms(f).ok_or("fixed_interval")?, true),
        (None, Some("day")) => (86_400_000, false),
        _ => return Err("date_histogram interval not modelled".into()),
      };
      let off = match agg.get("offset").and_then(|s| s.as_str()) {
        Some(s) => parse_interval_ms(s).ok_or("offset")?,
        None => 0,
      };
      let key_of = |v: i64| -> i64 {
        // Oracle correction: the pinned test `date_histogram_fixed_interval_respects_offset_and_missing`
        // (searchlite-core/tests/aggregations.rs) fixes the repository's semantics for fixed
        // intervals: a value is keyed by the first bucket boundary at or after it (ceil). The
        // oracle follows that; the floor reading is not demanded.
        let _ = fl.date_fixed_ceil;
        if is_fixed {
          (((v - off) as f64 / step as f64).ceil() as i64) * step + off
        } else {
          (v - off).div_euclid(step) * step + off
        }
      };
      let floor_key = |v: i64| -> i64 { (v - off).div_euclid(step) * step + off };
      let mdc = agg.get("min_doc_count").and_then(|m| m.as_u64());
      let bounds = |name: &str| -> Result<Option<(i64, i64)>, String> {
        match agg.get(name).filter(|b| !b.is_null()) {
          None => Ok(None),
          Some(b) => {
            let lo = parse_date_ms(b["min"].as_str().unwrap_or("")).ok_or("bounds.min")?;
            let hi = parse_date_ms(b["max"].as_str().unwrap_or("")).ok_or("bounds.max")?;
            Ok(Some((lo as i64, hi as i64)))
          }
        }
      };
      let ext = bounds("extended_bounds")?;
      let hard = bounds("hard_bounds")?;
      let missing = match agg.get("missing").and_then(|s| s.as_str()) {
        Some(s) => Some(parse_date_ms(s).ok_or("missing")?),
        None => None,
      };
      let mut groups: BTreeMap<i64, Vec<MDoc>> = BTreeMap::new();
      for d in docs {
        let mut ids = BTreeSet::new();
        for v in nums_missing(d.doc, field, missing) {
          let v = v as i64;
          if let Some((lo, hi)) = hard {
            let by_value = v >= lo && v <= hi;
            let k = floor_key(v);
            let by_key = k >= lo && k <= hi;
            if by_value != by_key {
              return Err("hard_bounds: limiting by value and by bucket key disagree (not documented)".into());
            }
            if !by_value {
              continue;
            }
          }
          ids.insert(key_of(v));
        }
        for id in ids {
          groups.entry(id).or_default().push(d.clone());
        }
      }
      match (mdc, ext) {
        (Some(0), None) => return Err("min_doc_count 0 without extended_bounds (gap filling is not documented)".into()),
        (Some(0), Some((lo, hi))) => {
          let mut k = key_of(lo);
          let end = key_of(hi);
          while k <= end {
            groups.entry(k).or_default();
            k += step;
          }
        }
        _ => {}
      }
      let min_keep = mdc.unwrap_or(1);
      let mut bs = Vec::new();
      for (id, v) in groups {
        if (v.len() as u64) < min_keep {
          continue;
        }
        if v.is_empty() {
          bs.push(json!({"key": id, "doc_count": 0, "aggs": {}}));
        } else {
          bs.push(bucket(json!(id), &v, agg, fl)?);
        }
      }
      Ok(json!({"type": ty, "buckets": bs}))
    }
    "filter" => {
      let mut members = Vec::new();
      for d in docs {
        if eval_filter(&agg["filter"], d.doc)? {
          members.push(d.clone());
        }
      }
      Ok(json!({"type": ty, "doc_count": members.len(), "aggs": expect_subs(agg, &members, fl)?}))
    }
    "composite" => {
      let sources = agg["sources"].as_array().ok_or("sources")?;
      let mut groups: Vec<(Vec<KeyPart>, Vec<MDoc>)> = Vec::new();
      for d in docs {
        let mut per: Vec<Vec<KeyPart>> = Vec::new();
        for s in sources {
          let f = s["field"].as_str().unwrap_or("");
          let vals: Vec<KeyPart> = match s["type"].as_str() {
            Some("terms") => strs(d.doc, f).into_iter().map(KeyPart::S).collect(),
            Some("histogram") => {
              let iv = s["interval"].as_f64().ok_or("interval")?;
              if fl.comp_hist_i64_empty && is_i64(f) {
                vec![]
              } else {
                nums(d.doc, f).into_iter().map(|v| KeyPart::F((v / iv).floor() * iv)).collect()
              }
            }
            _ => return Err("composite source not modelled".into()),
          };
          per.push(vals);
        }
        if per.iter().any(|v| v.is_empty()) {
          continue;
        }
        let mut combos: Vec<Vec<KeyPart>> = vec![vec![]];
        for vals in &per {
          let mut next = Vec::new();
          for c in &combos {
            for v in vals {
              let mut x = c.clone();
              x.push(v.clone());
              next.push(x);
            }
          }
          combos = next;
        }
        let mut seen: Vec<Vec<KeyPart>> = Vec::new();
        for c in combos {
          if seen.contains(&c) {
            continue;
          }
          seen.push(c.clone());
          match groups.iter_mut().find(|g| g.0 == c) {
            Some(g) => g.1.push(d.clone()),
            None => groups.push((c, vec![d.clone()])),
          }
        }
      }
      groups.sort_by(|a, b| cmp_parts(&a.0, &b.0));
      if let Some(after) = agg.get("after").filter(|a| !a.is_null()) {
        let mut ak = Vec::new();
        for s in sources {
          let v = &after[s["name"].as_str().unwrap_or("")];
          ak.push(match s["type"].as_str() {
            Some("terms") => KeyPart::S(v.as_str().ok_or("after key part")?.to_string()),
            _ => KeyPart::F(v.as_f64().ok_or("after key part")?),
          });
        }
        groups.retain(|g| cmp_parts(&g.0, &ak) == std::cmp::Ordering::Greater);
      }
      let size = agg["size"].as_u64().ok_or("size")? as usize;
      let more = groups.len() > size;
      groups.truncate(size);
      let key_json = |parts: &[KeyPart]| -> Value {
        let mut m = Map::new();
        for (p, s) in parts.iter().zip(sources.iter()) {
          m.insert(
            s["name"].as_str().unwrap_or("").to_string(),
            match p {
              KeyPart::S(x) => json!(x),
              KeyPart::F(x) => json!(x),
            },
          );
        }
        Value::Object(m)
      };
      let after_key = if more { groups.last().map(|g| key_json(&g.0)).unwrap_or(Value::Null) } else { Value::Null };
      let mut bs = Vec::new();
      for (k, v) in &groups {
        bs.push(bucket(key_json(k), v, agg, fl)?);
      }
      Ok(json!({"type": ty, "buckets": bs, "after_key": after_key}))
    }
    "stats" | "extended_stats" | "value_count" | "percentiles" | "percentile_ranks" => {
      let missing = num_or_str(agg.get("missing"));
      let mut vals: Vec<f64> = Vec::new();
      for d in docs {
        vals.extend(nums_missing(d.doc, field, missing));
      }
      let n = vals.len();
      match ty {
        "value_count" => Ok(json!({"type": ty, "value": n})),
        "stats" | "extended_stats" => {
          if n == 0 {
            let mut o = json!({"type": ty, "count": 0, "min": ANY, "max": ANY, "sum": ANY, "avg": ANY});
            if ty == "extended_stats" {
              o["variance"] = json!(ANY);
              o["std_deviation"] = json!(ANY);
            }
            return Ok(o);
          }
          let sum: f64 = vals.iter().sum();
          let avg = sum / n as f64;
          let min = vals.iter().cloned().fold(f64::INFINITY, f64::min);
          let max = vals.iter().cloned().fold(f64::NEG_INFINITY, f64::max);
          let mut o = json!({"type": ty, "count": n, "min": min, "max": max, "sum": sum, "avg": avg});
          if ty == "extended_stats" {
            let var = vals.iter().map(|v| (v - avg) * (v - avg)).sum::<f64>() / n as f64;
            o["variance"] = json!(var);
            o["std_deviation"] = json!(var.sqrt());
          }
          Ok(o)
        }
        "percentiles" => {
          let ps: Vec<f64> = agg.get("percents").and_then(|p| p.as_array()).ok_or("percents must be given (defaults are outside the alphabet)")?.iter().filter_map(|x| x.as_f64()).collect();
          vals.sort_by(|a, b| a.partial_cmp(b).unwrap());
          let mut out = Vec::new();
          for p in ps {
            let v = if n == 0 {
              json!(ANY)
            } else {
              let rank = p / 100.0 * (n as f64 - 1.0);
              let (lo, hi) = (rank.floor() as usize, rank.ceil() as usize);
              let w = rank - lo as f64;
              json!(vals[lo] * (1.0 - w) + vals[hi] * w)
            };
            out.push(json!([p, v]));
          }
          Ok(json!({"type": ty, "values": out}))
        }
        _ => {
          let ts: Vec<f64> = agg["values"].as_array().ok_or("values")?.iter().filter_map(|x| x.as_f64()).collect();
          let mut out = Vec::new();
          for t in ts {
            let v = if n == 0 { json!(ANY) } else { json!(vals.iter().filter(|v| **v <= t).count() as f64 / n as f64 * 100.0) };
            out.push(json!([t, v]));
          }
          Ok(json!({"type": ty, "values": out}))
        }
      }
    }
    "cardinality" => {
      if agg.get("missing").map(|m| !m.is_null()).unwrap_or(false) || agg.get("precision_threshold").map(|m| !m.is_null()).unwrap_or(false) {
        return Err("cardinality missing / precision_threshold are outside the alphabet".into());
      }
      let n = if is_keyword(field) {
        docs.iter().flat_map(|d| strs(d.doc, field)).collect::<BTreeSet<String>>().len()
      } else {
        docs.iter().flat_map(|d| nums(d.doc, field)).map(|v| v.to_bits()).collect::<BTreeSet<u64>>().len()
      };
      Ok(json!({"type": ty, "value": n}))
    }
    "top_hits" => {
      let size = agg["size"].as_u64().ok_or("size")? as usize;
      let from = agg.get("from").and_then(|f| f.as_u64()).unwrap_or(0) as usize;
      let specs: Vec<Value> = agg.get("sort").and_then(|s| s.as_array()).cloned().unwrap_or_default();
      let specs = if specs.is_empty() { vec![json!({"field": "_score"})] } else { specs };
      let mut uses_score = false;
      let mut plan: Vec<(String, bool)> = Vec::new(); // field, descending
      for s in &specs {
        let f = s["field"].as_str().ok_or("sort field")?.to_string();
        let desc = match s.get("order").and_then(|o| o.as_str()) {
          Some("desc") => true,
          Some("asc") => false,
          _ => f == "_score",
        };
        uses_score |= f == "_score";
        plan.push((f, desc));
      }
      if uses_score {
        for a in docs {
          for b in docs {
            if a.score != b.score && approx(a.score, b.score, 1e-5) {
              return Err("two scores differ by less than the comparison tolerance".into());
            }
          }
        }
      }
      let cmp = |a: &MDoc, b: &MDoc| -> std::cmp::Ordering {
        use std::cmp::Ordering::*;
        for (f, desc) in &plan {
          let o = if f == "_score" {
            let o = a.score.total_cmp(&b.score);
            if *desc { o.reverse() } else { o }
          } else if is_keyword(f) {
            let pick = |d: &MDoc| { let v = strs(d.doc, f); if *desc { v.into_iter().max() } else { v.into_iter().min() } };
            match (pick(a), pick(b)) {
              (None, None) => Equal,
              (None, _) => Greater,
              (_, None) => Less,
              (Some(x), Some(y)) => { let o = x.cmp(&y); if *desc { o.reverse() } else { o } }
            }
          } else {
            let pick = |d: &MDoc| { let v = nums(d.doc, f); if v.is_empty() { None } else if *desc { Some(v.into_iter().fold(f64::NEG_INFINITY, f64::max)) } else { Some(v.into_iter().fold(f64::INFINITY, f64::min)) } };
            match (pick(a), pick(b)) {
              (None, None) => Equal,
              (None, _) => Greater,
              (_, None) => Less,
              (Some(x), Some(y)) => { let o = x.partial_cmp(&y).unwrap(); if *desc { o.reverse() } else { o } }
            }
          };
          if o != Equal {
            return o;
          }
        }
        a.pos.cmp(&b.pos)
      };
      let mut sorted: Vec<MDoc> = docs.to_vec();
      sorted.sort_by(cmp);
      let hits: Vec<Value> = sorted.iter().skip(from).take(size).map(|d| json!({"doc_id": d.id, "score": d.score})).collect();
      Ok(json!({"type": ty, "total": docs.len(), "hits": hits}))
    }
    other => Err(format!("aggregation kind {other} is outside the property's exact kinds")),
  }
}

// ---------------------------------------------------------------------------------------------
// Canonical form of an observed response + tolerant comparison

fn canon_subs(agg: &Value, obs_aggs: Option<&Value>, mask_scores: bool) -> Result<Value, String> {
  let empty = Map::new();
  let om = obs_aggs.and_then(|a| a.as_object()).unwrap_or(&empty);
  let mut m = Map::new();
  let subs = sub_aggs(agg);
  for (name, sub) in &subs {
    let o = om.get(*name).ok_or_else(|| format!("sub-aggregation `{name}` is missing from the bucket"))?;
    m.insert((*name).clone(), canon(sub, o, mask_scores)?);
  }
  for k in om.keys() {
    if !subs.iter().any(|(n, _)| *n == k) {
      return Err(format!("unexpected sub-aggregation `{k}` in the response"));
    }
  }
  Ok(Value::Object(m))
}

fn pick(obs: &Value, ty: &str, keys: &[&str]) -> Result<Value, String> {
  let mut m = Map::new();
  m.insert("type".into(), json!(ty));
  for k in keys {
    m.insert((*k).to_string(), obs.get(*k).cloned().ok_or_else(|| format!("response lacks `{k}`"))?);
  }
  Ok(Value::Object(m))
}

fn canon_values(obs: &Value) -> Result<Value, String> {
  let m = obs.get("values").and_then(|v| v.as_object()).ok_or("response lacks `values`")?;
  let mut list: Vec<(f64, Value)> = Vec::new();
  for (k, v) in m {
    list.push((k.parse::<f64>().map_err(|_| format!("values key `{k}` is not a number"))?, v.clone()));
  }
  list.sort_by(|a, b| a.0.partial_cmp(&b.0).unwrap());
  Ok(Value::Array(list.into_iter().map(|(k, v)| json!([k, v])).collect()))
}

/// Canonical form of the serialised `AggregationResponse` `obs` for the request `agg`.
/// Err = the response does not even have the shape of the requested aggregation.
pub fn canon(agg: &Value, obs: &Value, mask_scores: bool) -> Result<Value, String> {
  let ty = agg["type"].as_str().ok_or("agg without type")?;
  if obs.get("type").and_then(|t| t.as_str()) != Some(ty) {
    return Err(format!("response type {} for a {ty} aggregation", obs.get("type").unwrap_or(&Value::Null)));
  }
  match ty {
    "terms" | "rare_terms" | "range" | "date_range" | "histogram" | "date_histogram" | "composite" => {
      let is_hist = ty == "histogram" || ty == "date_histogram";
      let mdc = agg.get("min_doc_count").and_then(|m| m.as_u64());
      let bl = obs.get("buckets").and_then(|b| b.as_array()).ok_or("response lacks `buckets`")?;
      let mut out = Vec::new();
      for b in bl {
        let dc = b.get("doc_count").and_then(|d| d.as_u64()).ok_or("bucket lacks doc_count")?;
        let key = b.get("key").cloned().ok_or("bucket lacks key")?;
        if is_hist && dc == 0 {
          match mdc {
            None => continue, // default min_doc_count is not documented: empty buckets are not compared
            Some(0) => {
              if let (Some((lo, hi)), Some(k)) = (hist_bounds_keys(agg), key.as_f64()) {
                if k < lo - 1e-9 || k > hi + 1e-9 {
                  continue; // gap filling outside extended_bounds is not documented
                }
              }
            }
            _ => {}
          }
          out.push(json!({"key": key, "doc_count": 0, "aggs": {}}));
          continue;
        }
        out.push(json!({"key": key, "doc_count": dc, "aggs": canon_subs(agg, b.get("aggregations"), mask_scores)?}));
      }
      let mut o = json!({"type": ty, "buckets": out});
      if ty == "composite" {
        o["after_key"] = obs.get("after_key").cloned().unwrap_or(Value::Null);
      }
      Ok(o)
    }
    "filter" => Ok(json!({"type": ty, "doc_count": obs.get("doc_count").cloned().ok_or("response lacks doc_count")?, "aggs": canon_subs(agg, obs.get("aggregations"), mask_scores)?})),
    "stats" => pick(obs, ty, &["count", "min", "max", "sum", "avg"]),
    "extended_stats" => pick(obs, ty, &["count", "min", "max", "sum", "avg", "variance", "std_deviation"]),
    "value_count" | "cardinality" => pick(obs, ty, &["value"]),
    "percentiles" | "percentile_ranks" => Ok(json!({"type": ty, "values": canon_values(obs)?})),
    "top_hits" => {
      let hits = obs.get("hits").and_then(|h| h.as_array()).ok_or("response lacks hits")?;
      let by_score = agg.get("sort").and_then(|s| s.as_array()).map(|s| s.is_empty() || s.iter().any(|x| x["field"] == "_score")).unwrap_or(true);
      if mask_scores && by_score {
        // BM25 scores depend on per-segment statistics, so the order legitimately depends on the layout
        return Ok(json!({"type": ty, "total": obs.get("total").cloned().ok_or("response lacks total")?, "hits": Value::Null}));
      }
      let hs: Vec<Value> = hits.iter().map(|h| json!({"doc_id": h.get("doc_id").cloned().unwrap_or(Value::Null), "score": if mask_scores { Value::Null } else { h.get("score").cloned().unwrap_or(Value::Null) }})).collect();
      Ok(json!({"type": ty, "total": obs.get("total").cloned().ok_or("response lacks total")?, "hits": hs}))
    }
    other => Err(format!("aggregation kind {other} not modelled")),
  }
}

fn num_close(a: f64, b: f64, tol: f64) -> bool {
  a == b || (a - b).abs() <= tol * a.abs().max(b.abs()).max(1.0)
}

/// First difference between a canonical observed response and the expected one (`ANY` matches
/// everything); floats within 1e-9, scores within 1e-5.
pub fn diff(obs: &Value, exp: &Value, path: &str) -> Option<String> {
  if exp.as_str() == Some(ANY) {
    return None;
  }
  match (obs, exp) {
    (Value::Number(a), Value::Number(b)) => {
      let tol = if path.ends_with("score") { 1e-5 } else { 1e-9 };
      if num_close(a.as_f64().unwrap(), b.as_f64().unwrap(), tol) {
        None
      } else {
        Some(format!("{path}: observed {a}, expected {b}"))
      }
    }
    (Value::Array(a), Value::Array(b)) => {
      if a.len() != b.len() {
        let brief = |v: &Vec<Value>| -> String {
          let s: Vec<String> = v.iter().map(|x| match x.get("key") { Some(k) => format!("{}:{}", k, x.get("doc_count").unwrap_or(&Value::Null)), None => x.to_string() }).collect();
          format!("[{}]", s.join(", "))
        };
        return Some(format!("{path}: observed {} entries {}, expected {} entries {}", a.len(), brief(a), b.len(), brief(b)));
      }
      for (i, (x, y)) in a.iter().zip(b.iter()).enumerate() {
        if let Some(d) = diff(x, y, &format!("{path}[{i}]")) {
          return Some(d);
        }
      }
      None
    }
    (Value::Object(a), Value::Object(b)) => {
      for k in b.keys() {
        if !a.contains_key(k) {
          return Some(format!("{path}.{k}: missing in the response"));
        }
      }
      for (k, x) in a {
        match b.get(k) {
          None => return Some(format!("{path}.{k}: unexpected in the response")),
          Some(y) => {
            if let Some(d) = diff(x, y, &format!("{path}.{k}")) {
              return Some(d);
            }
          }
        }
      }
      None
    }
    _ => {
      if obs == exp {
        None
      } else {
        Some(format!("{path}: observed {obs}, expected {exp}"))
      }
    }
  }
}

// ---------------------------------------------------------------------------------------------
// Aggregation alphabet

pub const SIG_TERMS_SIZE: &str = "C12-terms-size-truncated-per-segment";
pub const SIG_TERMS_MDC: &str = "C12-terms-min-doc-count-applied-per-segment";
pub const SIG_RARE_MAX: &str = "C12-rare-terms-max-doc-count-applied-per-segment";
pub const SIG_HIST_MDC: &str = "C12-histogram-min-doc-count-applied-per-segment";
pub const SIG_DATEHIST_MDC: &str = "C12-date-histogram-min-doc-count-applied-per-segment";
pub const SIG_TOPHITS_FROM: &str = "C12-top-hits-from-applied-per-segment";
pub const SIG_DATE_CEIL: &str = "C12-date-histogram-fixed-interval-rounds-up";
pub const SIG_COMP_I64: &str = "C12-composite-histogram-source-ignores-i64-field";

#[derive(Clone, Debug)]
pub struct AggCase {
  pub name: String,
  pub agg: Value,
}

fn with_subs(mut agg: Value, subs: &[(&str, Value)]) -> Value {
  if !subs.is_empty() {
    let mut m = Map::new();
    for (n, s) in subs {
      m.insert((*n).to_string(), s.clone());
    }
    agg["aggs"] = Value::Object(m);
  }
  agg
}

fn ranges_f(keyed: bool) -> Value {
  if keyed {
    json!([{"key": "low", "to": 0.75}, {"key": "mid", "from": 0.75, "to": 2.25}, {"key": "high", "from": 1.75}])
  } else {
    json!([{"to": 0.75}, {"from": 0.75, "to": 2.25}, {"from": 1.75}])
  }
}

/// Bucket aggregations used as inner / outer nodes of nested trees (default-ish options).
fn nest_buckets() -> Vec<(&'static str, Value)> {
  vec![
    ("terms", json!({"type": "terms", "field": "kw"})),
    ("rare", json!({"type": "rare_terms", "field": "kw", "max_doc_count": 2})),
    ("range", json!({"type": "range", "field": "f", "keyed": true, "ranges": ranges_f(true)})),
    ("hist", json!({"type": "histogram", "field": "f", "interval": 1.0, "min_doc_count": 1})),
    ("day", json!({"type": "date_histogram", "field": "ts", "calendar_interval": "day", "min_doc_count": 1})),
    ("filter", json!({"type": "filter", "filter": {"I64Range": {"field": "n", "min": 1, "max": 2}}})),
    ("comp", json!({"type": "composite", "size": 10, "sources": [{"type": "terms", "name": "k2", "field": "kw2"}]})),
  ]
}

fn leaf_metrics() -> Vec<(&'static str, Value)> {
  vec![
    ("stats_f", json!({"type": "stats", "field": "f"})),
    ("xstats_n", json!({"type": "extended_stats", "field": "n"})),
    ("vc_f", json!({"type": "value_count", "field": "f"})),
    ("card_kw", json!({"type": "cardinality", "field": "kw"})),
    ("pct_f", json!({"type": "percentiles", "field": "f", "percents": [0, 50, 100]})),
    ("ranks_n", json!({"type": "percentile_ranks", "field": "n", "values": [0, 2]})),
    ("top1", json!({"type": "top_hits", "size": 1, "sort": [{"field": "n", "order": "asc"}]})),
  ]
}

pub fn agg_alphabet(quick: bool) -> Vec<AggCase> {
  let mut out: Vec<AggCase> = Vec::new();
  let mut add = |name: &str, agg: Value| out.push(AggCase { name: name.to_string(), agg });
  // --- metrics
  add("stats_f", json!({"type": "stats", "field": "f"}));
  add("stats_n", json!({"type": "stats", "field": "n"}));
  add("stats_f_missing", json!({"type": "stats", "field": "f", "missing": 0.25}));
  add("xstats_f", json!({"type": "extended_stats", "field": "f"}));
  add("xstats_n", json!({"type": "extended_stats", "field": "n"}));
  add("vc_f", json!({"type": "value_count", "field": "f"}));
  add("vc_n_missing", json!({"type": "value_count", "field": "n", "missing": 7}));
  add("card_kw", json!({"type": "cardinality", "field": "kw"}));
  add("card_n", json!({"type": "cardinality", "field": "n"}));
  add("card_f", json!({"type": "cardinality", "field": "f"}));
  add("pct_f", json!({"type": "percentiles", "field": "f", "percents": [0, 50, 100]}));
  add("pct_n", json!({"type": "percentiles", "field": "n", "percents": [0, 50, 100]}));
  add("ranks_f", json!({"type": "percentile_ranks", "field": "f", "values": [1.0, 2.25]}));
  add("ranks_n", json!({"type": "percentile_ranks", "field": "n", "values": [0, 2]}));
  // --- terms
  add("terms", json!({"type": "terms", "field": "kw"}));
  add("terms_kw2", json!({"type": "terms", "field": "kw2"}));
  add("terms_size1", json!({"type": "terms", "field": "kw", "size": 1}));
  add("terms_size2", json!({"type": "terms", "field": "kw", "size": 2}));
  add("terms_mdc1", json!({"type": "terms", "field": "kw", "min_doc_count": 1}));
  add("terms_mdc2", json!({"type": "terms", "field": "kw", "min_doc_count": 2}));
  add("terms_missing", json!({"type": "terms", "field": "kw", "missing": "none"}));
  add("terms_missing_x", json!({"type": "terms", "field": "kw", "missing": "x"}));
  add("terms_size1_missing", json!({"type": "terms", "field": "kw", "size": 1, "missing": "none"}));
  add("terms_size2_mdc2", json!({"type": "terms", "field": "kw", "size": 2, "min_doc_count": 2}));
  // --- rare_terms
  add("rare", json!({"type": "rare_terms", "field": "kw"}));
  add("rare_max1", json!({"type": "rare_terms", "field": "kw", "max_doc_count": 1}));
  add("rare_max2", json!({"type": "rare_terms", "field": "kw", "max_doc_count": 2}));
  // --- range / date_range
  add("range_f", json!({"type": "range", "field": "f", "keyed": false, "ranges": ranges_f(false)}));
  add("range_f_keyed", json!({"type": "range", "field": "f", "keyed": true, "ranges": ranges_f(true)}));
  add("range_n", json!({"type": "range", "field": "n", "keyed": false, "ranges": [{"key": "neg", "to": 0.5}, {"key": "pos", "from": 0.5}, {"key": "all"}]}));
  add("range_f_missing", json!({"type": "range", "field": "f", "keyed": false, "missing": 0.0, "ranges": ranges_f(true)}));
  add("date_range", json!({"type": "date_range", "field": "ts", "keyed": false, "ranges": [
    {"key": "early", "to": "1250"}, {"key": "mid", "from": "1970-01-01T00:00:01.250Z", "to": "1970-01-01T00:00:02.250Z"},
    {"key": "late", "from": "2250"}, {"key": "day2", "from": "1970-01-02T00:00:00Z"}, {"key": "all"}]}));
  add("date_range_keyed", json!({"type": "date_range", "field": "ts", "keyed": true, "ranges": [{"key": "a", "to": "1970-01-01T00:00:01.750Z"}, {"key": "b", "from": "750"}]}));
  // --- histogram
  add("hist_f_1", json!({"type": "histogram", "field": "f", "interval": 1.0}));
  add("hist_f_2", json!({"type": "histogram", "field": "f", "interval": 2.0}));
  add("hist_f_05", json!({"type": "histogram", "field": "f", "interval": 0.5}));
  add("hist_f_1_off", json!({"type": "histogram", "field": "f", "interval": 1.0, "offset": 0.5}));
  add("hist_f_1_ext", json!({"type": "histogram", "field": "f", "interval": 1.0, "min_doc_count": 0, "extended_bounds": {"min": -2.0, "max": 3.0}}));
  add("hist_f_1_hard", json!({"type": "histogram", "field": "f", "interval": 1.0, "min_doc_count": 1, "hard_bounds": {"min": 0.0, "max": 1.9}}));
  add("hist_f_1_missing", json!({"type": "histogram", "field": "f", "interval": 1.0, "missing": 0.25}));
  add("hist_f_1_mdc2", json!({"type": "histogram", "field": "f", "interval": 1.0, "min_doc_count": 2}));
  add("hist_n_1", json!({"type": "histogram", "field": "n", "interval": 1.0}));
  add("hist_n_2_off", json!({"type": "histogram", "field": "n", "interval": 2.0, "offset": 1.0}));
  add("hist_n_2_ext_hard", json!({"type": "histogram", "field": "n", "interval": 2.0, "min_doc_count": 0, "extended_bounds": {"min": -2.0, "max": 3.0}, "hard_bounds": {"min": -2.0, "max": 3.9}}));
  // --- date_histogram
  add("dh_1s", json!({"type": "date_histogram", "field": "ts", "fixed_interval": "1s"}));
  add("dh_2s", json!({"type": "date_histogram", "field": "ts", "fixed_interval": "2s"}));
  add("dh_day", json!({"type": "date_histogram", "field": "ts", "calendar_interval": "day"}));
  add("dh_1s_off", json!({"type": "date_histogram", "field": "ts", "fixed_interval": "1s", "offset": "500ms"}));
  add("dh_1s_ext", json!({"type": "date_histogram", "field": "ts", "fixed_interval": "1s", "min_doc_count": 0, "extended_bounds": {"min": "0", "max": "1970-01-01T00:00:03Z"}}));
  add("dh_1s_hard", json!({"type": "date_histogram", "field": "ts", "fixed_interval": "1s", "min_doc_count": 1, "hard_bounds": {"min": "0", "max": "2999"}}));
  add("dh_1s_missing", json!({"type": "date_histogram", "field": "ts", "fixed_interval": "1s", "missing": "1000"}));
  add("dh_day_mdc2", json!({"type": "date_histogram", "field": "ts", "calendar_interval": "day", "min_doc_count": 2}));
  add("dh_day_ext", json!({"type": "date_histogram", "field": "ts", "calendar_interval": "day", "min_doc_count": 0, "extended_bounds": {"min": "0", "max": "1970-01-03T00:00:00Z"}}));
  // --- filter
  add("filter_kw", json!({"type": "filter", "filter": {"KeywordEq": {"field": "kw", "value": "x"}}}));
  add("filter_n", with_subs(json!({"type": "filter", "filter": {"I64Range": {"field": "n", "min": 1, "max": 2}}}), &[("vc", json!({"type": "value_count", "field": "n"}))]));
  // --- composite
  let src_kw = json!({"type": "terms", "name": "k", "field": "kw"});
  let src_kw2 = json!({"type": "terms", "name": "k2", "field": "kw2"});
  let src_f = |iv: f64| json!({"type": "histogram", "name": "h", "field": "f", "interval": iv});
  let src_n = |iv: f64| json!({"type": "histogram", "name": "h", "field": "n", "interval": iv});
  add("comp_kw", json!({"type": "composite", "size": 10, "sources": [src_kw]}));
  add("comp_kw_size2", json!({"type": "composite", "size": 2, "sources": [src_kw]}));
  add("comp_kw_after", json!({"type": "composite", "size": 10, "after": {"k": "x"}, "sources": [src_kw]}));
  add("comp_hf", json!({"type": "composite", "size": 10, "sources": [src_f(1.0)]}));
  add("comp_hf2_size1", json!({"type": "composite", "size": 1, "sources": [src_f(2.0)]}));
  add("comp_hn", json!({"type": "composite", "size": 10, "sources": [src_n(1.0)]}));
  add("comp_kw_hf", json!({"type": "composite", "size": 10, "sources": [src_kw, src_f(1.0)]}));
  add("comp_kw_kw2", json!({"type": "composite", "size": 10, "sources": [src_kw, src_kw2]}));
  add("comp_kw_kw2_size2_sub", with_subs(json!({"type": "composite", "size": 2, "sources": [src_kw, src_kw2]}), &[("s", json!({"type": "stats", "field": "f"}))]));
  // --- top_hits
  add("top1", json!({"type": "top_hits", "size": 1}));
  add("top2", json!({"type": "top_hits", "size": 2}));
  add("top2_from1", json!({"type": "top_hits", "size": 2, "from": 1}));
  add("top1_from1", json!({"type": "top_hits", "size": 1, "from": 1}));
  add("top2_n_asc", json!({"type": "top_hits", "size": 2, "sort": [{"field": "n", "order": "asc"}]}));
  add("top2_kw_desc", json!({"type": "top_hits", "size": 2, "sort": [{"field": "kw", "order": "desc"}]}));
  add("top1_from1_n_asc", json!({"type": "top_hits", "size": 1, "from": 1, "sort": [{"field": "n", "order": "asc"}]}));
  add("top3_f_desc_score", json!({"type": "top_hits", "size": 3, "sort": [{"field": "f", "order": "desc"}, {"field": "_score"}]}));
  // --- depth 2: every bucket kind with every metric family below it
  for (bn, b) in nest_buckets() {
    let subs = leaf_metrics();
    add(&format!("{bn}>metrics"), with_subs(b, &subs));
  }
  // option-bearing parents with a sub-aggregation
  let vc = ("vc", json!({"type": "value_count", "field": "f"}));
  add("terms_size1>vc", with_subs(json!({"type": "terms", "field": "kw", "size": 1}), &[vc.clone()]));
  add("terms_mdc2>vc", with_subs(json!({"type": "terms", "field": "kw", "min_doc_count": 2}), &[vc.clone()]));
  add("rare_max1>vc", with_subs(json!({"type": "rare_terms", "field": "kw", "max_doc_count": 1}), &[vc.clone()]));
  add("hist_ext>vc", with_subs(json!({"type": "histogram", "field": "f", "interval": 1.0, "min_doc_count": 0, "extended_bounds": {"min": -2.0, "max": 3.0}}), &[vc.clone()]));
  add("terms>top1_from1", with_subs(json!({"type": "terms", "field": "kw"}), &[("t", json!({"type": "top_hits", "size": 1, "from": 1}))]));
  add("terms_missing>terms_kw2", with_subs(json!({"type": "terms", "field": "kw", "missing": "none"}), &[("t2", json!({"type": "terms", "field": "kw2", "missing": "none"}))]));
  // --- depth 3: bucket > bucket > metrics (reduced cross product)
  let leaves: Vec<(&str, Value)> = vec![
    ("s", json!({"type": "stats", "field": "f"})),
    ("c", json!({"type": "cardinality", "field": "kw"})),
    ("h", json!({"type": "top_hits", "size": 1, "sort": [{"field": "n", "order": "asc"}]})),
  ];
  let nb = nest_buckets().len();
  for (oi, (on, o)) in nest_buckets().into_iter().enumerate() {
    for (ii, (inn, i)) in nest_buckets().into_iter().enumerate() {
      // quick: a rotating third of the cross product (every kind is outer 3x and inner 3x)
      if quick && ![0, 1, 3].contains(&((ii + nb - oi) % nb)) {
        continue;
      }
      let inner = with_subs(i, &leaves);
      add(&format!("{on}>{inn}>leaves"), with_subs(o.clone(), &[("in", inner)]));
    }
  }
  add("terms>terms_size1>vc", with_subs(json!({"type": "terms", "field": "kw2"}), &[("in", with_subs(json!({"type": "terms", "field": "kw", "size": 1}), &[vc.clone()]))]));
  add("filter>terms_mdc2>vc", with_subs(json!({"type": "filter", "filter": {"KeywordIn": {"field": "kw2", "values": ["p", "q"]}}}), &[("in", with_subs(json!({"type": "terms", "field": "kw", "min_doc_count": 2}), &[vc.clone()]))]));
  add("hist>rare_max1>vc", with_subs(json!({"type": "histogram", "field": "n", "interval": 2.0, "min_doc_count": 1}), &[("in", with_subs(json!({"type": "rare_terms", "field": "kw", "max_doc_count": 1}), &[vc.clone()]))]));
  add("range>hist_mdc2>vc", with_subs(json!({"type": "range", "field": "n", "keyed": false, "ranges": [{"key": "all"}, {"key": "pos", "from": 0.5}]}), &[("in", with_subs(json!({"type": "histogram", "field": "f", "interval": 1.0, "min_doc_count": 2}), &[vc.clone()]))]));
  out
}

/// Signatures whose trigger (kind + option) occurs somewhere in the tree.
pub fn triggers(agg: &Value) -> Vec<&'static str> {
  fn walk(a: &Value, out: &mut Vec<&'static str>) {
    let mdc2 = a.get("min_doc_count").and_then(|m| m.as_u64()).map(|m| m >= 2).unwrap_or(false);
    let t = match a["type"].as_str().unwrap_or("") {
      "terms" => {
        if a.get("size").map(|s| !s.is_null()).unwrap_or(false) {
          out.push(SIG_TERMS_SIZE);
        }
        if mdc2 { Some(SIG_TERMS_MDC) } else { None }
      }
      "rare_terms" => Some(SIG_RARE_MAX),
      "histogram" if mdc2 => Some(SIG_HIST_MDC),
      "date_histogram" if mdc2 => Some(SIG_DATEHIST_MDC),
      "top_hits" if a.get("from").and_then(|f| f.as_u64()).unwrap_or(0) > 0 => Some(SIG_TOPHITS_FROM),
      _ => None,
    };
    if let Some(t) = t {
      out.push(t);
    }
    for (_, s) in sub_aggs(a) {
      walk(s, out);
    }
  }
  let mut v = Vec::new();
  walk(agg, &mut v);
  v.sort();
  v.dedup();
  v
}

/// The same tree with every option that triggers one of `sigs` switched off.
pub fn neutralise(agg: &Value, sigs: &[&str]) -> Value {
  let mut a = agg.clone();
  let ty = a["type"].as_str().unwrap_or("").to_string();
  let has = |s: &str| sigs.contains(&s);
  let o = a.as_object_mut().unwrap();
  match ty.as_str() {
    "terms" => {
      if has(SIG_TERMS_SIZE) {
        o.remove("size");
      }
      if has(SIG_TERMS_MDC) && o.contains_key("min_doc_count") {
        o.insert("min_doc_count".into(), json!(1));
      }
    }
    "rare_terms" if has(SIG_RARE_MAX) => {
      o.insert("max_doc_count".into(), json!(1_000_000));
    }
    "histogram" if has(SIG_HIST_MDC) && o.contains_key("min_doc_count") => {
      o.insert("min_doc_count".into(), json!(1));
    }
    "date_histogram" if has(SIG_DATEHIST_MDC) && o.contains_key("min_doc_count") => {
      o.insert("min_doc_count".into(), json!(1));
    }
    "top_hits" if has(SIG_TOPHITS_FROM) => {
      o.insert("from".into(), json!(0));
    }
    _ => {}
  }
  if let Some(subs) = o.get_mut("aggs").and_then(|s| s.as_object_mut()) {
    for (_, s) in subs.iter_mut() {
      *s = neutralise(s, sigs);
    }
  }
  a
}

fn tree_has(agg: &Value, pred: &dyn Fn(&Value) -> bool) -> bool {
  pred(agg) || sub_aggs(agg).iter().any(|(_, s)| tree_has(s, pred))
}

// ---------------------------------------------------------------------------------------------
// Running requests

pub fn parse_aggs(cases: &[AggCase]) -> BTreeMap<String, Aggregation> {
  cases.iter().map(|c| (c.name.clone(), serde_json::from_value::<Aggregation>(c.agg.clone()).unwrap_or_else(|e| panic!("agg {} does not parse: {e}", c.name)))).collect()
}

/// One search with the given aggregations and limit = number of documents of the world.
pub fn run_aggs(reader: &IndexReader, tmpl: &SearchRequest, n: usize, aggs: &BTreeMap<String, Aggregation>) -> Result<SearchResult, String> {
  let mut r = tmpl.clone();
  r.limit = n.max(1);
  r.aggs = aggs.clone();
  search_caught(reader, &r)
}

#[derive(Debug, Clone)]
pub enum Verdict {
  Pass,
  /// the documentation does not determine the expected answer
  #[allow(dead_code)]
  Skip(String),
  Fail { what: String, obs: Value },
}

/// Compare one serialised response with the oracle.
pub fn judge(agg: &Value, obs: Option<&Value>, docs: &[MDoc], fl: Flags) -> Verdict {
  let exp = match expect(agg, docs, fl) {
    Ok(e) => e,
    Err(why) => return Verdict::Skip(why),
  };
  let Some(obs) = obs else {
    return Verdict::Fail { what: "the aggregation is missing from the response".into(), obs: Value::Null };
  };
  match canon(agg, obs, false) {
    Err(e) => Verdict::Fail { what: format!("malformed response: {e}"), obs: obs.clone() },
    Ok(c) => match diff(&c, &exp, "") {
      None => Verdict::Pass,
      Some(d) => Verdict::Fail { what: d, obs: c },
    },
  }
}

/// Run a single aggregation on a world and judge it (replay, neutralisation probes).
pub fn check_one(reader: &IndexReader, world: &World, q: &QSpec, agg: &Value, fl: Flags) -> Verdict {
  let parsed: Aggregation = match serde_json::from_value(agg.clone()) {
    Ok(a) => a,
    Err(e) => return Verdict::Skip(format!("aggregation does not parse: {e}")),
  };
  let mut m = BTreeMap::new();
  m.insert("x".to_string(), parsed);
  let res = match run_aggs(reader, &q.template(), world.docs.len(), &m) {
    Ok(r) => r,
    Err(e) => return Verdict::Fail { what: format!("search failed: {e}"), obs: Value::Null },
  };
  let docs = match mdocs_from_hits(world, &res) {
    Ok(d) => d,
    Err(e) => return Verdict::Fail { what: e, obs: Value::Null },
  };
  let obs = res.aggregations.get("x").map(|a| serde_json::to_value(a).unwrap());
  judge(agg, obs.as_ref(), &docs, fl)
}

fn is_pass(v: &Verdict) -> bool {
  matches!(v, Verdict::Pass)
}
fn is_fail(v: &Verdict) -> bool {
  matches!(v, Verdict::Fail { .. })
}

/// Which established defect (if any) explains this failure of `agg` on `world`.
/// `base_pass`: the same corpus / deletions / query / aggregation passes on the single-segment layout.
pub fn classify(reader: &IndexReader, world: &World, q: &QSpec, agg: &Value, obs_raw: Option<&Value>, docs: &[MDoc], base_pass: Option<bool>) -> Option<&'static str> {
  // defect models that do not depend on the layout
  let has_fixed_dh = tree_has(agg, &|a| a["type"] == "date_histogram" && a.get("fixed_interval").map(|f| !f.is_null()).unwrap_or(false));
  let has_comp_i64 = tree_has(agg, &|a| a["type"] == "composite" && a["sources"].as_array().map(|s| s.iter().any(|x| x["type"] == "histogram" && is_i64(x["field"].as_str().unwrap_or("")))).unwrap_or(false));
  if has_fixed_dh {
    if is_pass(&judge(agg, obs_raw, docs, Flags { date_fixed_ceil: true, ..Flags::default() })) {
      return Some(SIG_DATE_CEIL);
    }
  }
  if has_comp_i64 {
    if is_pass(&judge(agg, obs_raw, docs, Flags { comp_hist_i64_empty: true, ..Flags::default() })) {
      return Some(SIG_COMP_I64);
    }
  }
  // per-segment application of a limit / threshold: only on a multi-segment index, only
  // when the single-segment layout is right, and only when switching the option off repairs it
  if world.layout.len() < 2 || base_pass != Some(true) {
    return None;
  }
  let ts = triggers(agg);
  if ts.is_empty() {
    return None;
  }
  for t in &ts {
    if is_pass(&check_one(reader, world, q, &neutralise(agg, &[t]), Flags::default())) {
      return Some(t);
    }
  }
  if ts.len() > 1 && is_pass(&check_one(reader, world, q, &neutralise(agg, &ts), Flags::default())) {
    for t in &ts {
      let others: Vec<&str> = ts.iter().filter(|x| *x != t).cloned().collect();
      if is_fail(&check_one(reader, world, q, &neutralise(agg, &others), Flags::default())) {
        return Some(t);
      }
    }
  }
  None
}

// ---------------------------------------------------------------------------------------------
// Corpus enumeration

/// Layout groups of a corpus of n documents: (deleted ids, layouts); the first layout of a group
/// is the single-segment one.
pub fn layout_groups(n: usize) -> Vec<(Vec<String>, Vec<Vec<usize>>)> {
  let mut g = vec![(vec![], compositions(n))];
  if n >= 2 {
    let h = n.div_ceil(2);
    let mut ls = vec![vec![n], vec![h, n - h]];
    if n >= 3 {
      ls.push(vec![1; n]);
    }
    g.push((vec![id_of(1)], ls));
  }
  g
}

/// Corpora: every sequence of shapes (so that every grouping of shapes into segments occurs) of
/// length 1..=max_len over the first `nshapes` shapes.
pub fn corpora(nshapes: usize, min_len: usize, max_len: usize) -> Vec<Vec<usize>> {
  let alphabet: Vec<usize> = (0..nshapes).collect();
  sequences(&alphabet, min_len, max_len)
}

struct FailRec {
  sig: Option<&'static str>,
  what: String,
  case: Value,
}

#[derive(Default)]
struct CorpusOut {
  fails: Vec<FailRec>,
  more: Vec<(Option<&'static str>, u64)>,
  evals: u64,
  worlds: u64,
  skipped: BTreeMap<String, u64>,
  nontrivial: u64,
  layout_cmp: u64,
  outcomes: BTreeSet<String>,
  /// seconds: build, search, oracle, judge, failure handling
  t: [f64; 5],
}

impl CorpusOut {
  fn fail(&mut self, sig: Option<&'static str>, what: impl FnOnce() -> String, case: impl FnOnce() -> Value) {
    let same = self.fails.iter().filter(|f| f.sig == sig).count();
    if same < 2 {
      self.fails.push(FailRec { sig, what: what(), case: case() });
    } else {
      match self.more.iter_mut().find(|m| m.0 == sig) {
        Some(m) => m.1 += 1,
        None => self.more.push((sig, 1)),
      }
    }
  }
}

fn case_json(world: &World, q: &QSpec, c: &AggCase) -> Value {
  json!({"engine": "inputmc-aggs", "kind": "oracle", "world": world.to_json(), "query": q.to_json(), "agg_name": c.name, "agg": c.agg})
}

fn outcome_tag(c: &Value) -> String {
  let ty = c["type"].as_str().unwrap_or("?");
  match c.get("buckets").and_then(|b| b.as_array()) {
    Some(b) => format!("{ty}:{}b", b.len()),
    None => match c.get("count").or(c.get("value")).or(c.get("total")).or(c.get("doc_count")) {
      Some(v) => format!("{ty}:{v}"),
      None => ty.to_string(),
    },
  }
}

struct Seen {
  sid: usize,
  resp: searchlite_core::api::types::AggregationResponse,
  is_base: bool,
  differs: Option<String>,
}

fn check_corpus(shape_idx: &[usize], queries: &[QSpec], tmpls: &[SearchRequest], cases: &[AggCase], parsed: &BTreeMap<String, Aggregation>) -> CorpusOut {
  let sh = shapes();
  let docs: Vec<Value> = shape_idx.iter().map(|s| sh[*s].clone()).collect();
  check_docs(&docs, layout_groups(docs.len()), queries, tmpls, cases, parsed)
}

/// Check one document list under groups of (deleted ids, layouts); the first layout of a group is
/// the reference of the layout-equality oracle (single segment).
fn check_docs(doc_list: &[Value], groups: Vec<(Vec<String>, Vec<Vec<usize>>)>, queries: &[QSpec], tmpls: &[SearchRequest], cases: &[AggCase], parsed: &BTreeMap<String, Aggregation>) -> CorpusOut {
  let mut out = CorpusOut::default();
  let n = doc_list.len();
  let uses_score: Vec<bool> = cases.iter().map(|c| tree_has(&c.agg, &|a| a["type"] == "top_hits")).collect();
  for (deleted, layouts) in groups {
    // per (query, agg): did the base layout pass, and its canonical response (scores masked when
    // they legitimately depend on per-segment statistics)
    let mut base_pass: Vec<Vec<Option<bool>>> = vec![vec![None; cases.len()]; queries.len()];
    let mut base_canon: Vec<Vec<Option<Value>>> = vec![vec![None; cases.len()]; queries.len()];
    // passing responses already judged for this corpus, per (query, agg)
    let mut seen: Vec<Vec<Vec<Seen>>> = (0..queries.len()).map(|_| (0..cases.len()).map(|_| Vec::new()).collect()).collect();
    // oracle cache: (query, matched positions [+ score bits]) -> lazily computed expectation per agg
    let mut set_ids: HashMap<(usize, Vec<(usize, u32)>), usize> = HashMap::new();
    let mut sets: Vec<Vec<Option<Result<Value, String>>>> = Vec::new();
    for (li, layout) in layouts.iter().enumerate() {
      let t0 = std::time::Instant::now();
      let world = world_from_docs(doc_list, layout, &deleted);
      let idx = world.build();
      let reader = match idx.reader() {
        Ok(r) => r,
        Err(e) => {
          out.fail(None, || format!("{}: reader failed: {e:#}", world.describe()), || json!({"world": world.to_json()}));
          continue;
        }
      };
      out.worlds += 1;
      out.t[0] += t0.elapsed().as_secs_f64();
      for (qi, q) in queries.iter().enumerate() {
        let t1 = std::time::Instant::now();
        let searched = run_aggs(&reader, &tmpls[qi], n, parsed);
        out.t[1] += t1.elapsed().as_secs_f64();
        let res = match searched {
          Ok(r) => r,
          Err(e) => {
            // find the culprit(s) one by one
            let mut found = false;
            for c in cases {
              if let Verdict::Fail { what, .. } = check_one(&reader, &world, q, &c.agg, Flags::default()) {
                if what.starts_with("search failed") {
                  found = true;
                  out.fail(None, || format!("{} query={} agg {}={}: {what}", world.describe(), q.name, c.name, c.agg), || case_json(&world, q, c));
                }
              }
            }
            if !found {
              out.fail(None, || format!("{} query={}: request with all aggregations failed ({e}) but every single one succeeds", world.describe(), q.name), || json!({"world": world.to_json(), "query": q.to_json()}));
            }
            continue;
          }
        };
        let docs = match mdocs_from_hits(&world, &res) {
          Ok(d) => d,
          Err(e) => {
            out.fail(None, || format!("{} query={}: {e}", world.describe(), q.name), || json!({"world": world.to_json(), "query": q.to_json()}));
            continue;
          }
        };
        let touched = segments_touched(layout, &docs);
        let mut sid_of = |key: (usize, Vec<(usize, u32)>)| -> usize {
          let next = sets.len();
          let id = *set_ids.entry(key).or_insert(next);
          if id == next {
            sets.push(vec![None; cases.len()]);
          }
          id
        };
        let sid_full = sid_of((qi, docs.iter().map(|d| (d.pos, d.score.to_bits())).collect()));
        let sid_pos = sid_of((qi, docs.iter().map(|d| (d.pos, 0)).collect()));
        let t3 = std::time::Instant::now();
        let mut t_fail = 0.0;
        let mut t_oracle = 0.0;
        for (ai, c) in cases.iter().enumerate() {
          out.evals += 1;
          let sid = if uses_score[ai] { sid_full } else { sid_pos };
          if sets[sid][ai].is_none() {
            let t2 = std::time::Instant::now();
            sets[sid][ai] = Some(expect(&c.agg, &docs, Flags::default()));
            t_oracle += t2.elapsed().as_secs_f64();
          }
          let exp = match sets[sid][ai].as_ref().unwrap() {
            Ok(e) => e,
            Err(why) => {
              *out.skipped.entry(why.clone()).or_default() += 1;
              continue;
            }
          };
          if docs.len() >= 2 && touched >= 2 {
            out.nontrivial += 1;
          }
          let resp = res.aggregations.get(&c.name);
          // a response identical to one already judged (same expectation) has the same verdict
          if let Some(r) = resp {
            if let Some(e) = seen[qi][ai].iter().find(|e| e.sid == sid && &e.resp == r) {
              if li > 0 && base_pass[qi][ai] == Some(true) {
                out.layout_cmp += 1;
                if let (false, Some(d)) = (e.is_base, &e.differs) {
                  out.fail(None, || format!("docs={} deleted={:?} query={} agg {}={}: layout {:?} and the single-segment layout both satisfy the oracle but differ from each other: {d}", json!(world.docs), deleted, q.name, c.name, c.agg, layout), || {
                    let mut cj = case_json(&world, q, c);
                    cj["kind"] = json!("layouts");
                    cj
                  });
                }
              }
              continue;
            }
          }
          let obs_raw = resp.map(|a| serde_json::to_value(a).unwrap());
          let verdict = match &obs_raw {
            None => Err(("the aggregation is missing from the response".to_string(), Value::Null)),
            Some(o) => match canon(&c.agg, o, false) {
              Err(e) => Err((format!("malformed response: {e}"), o.clone())),
              Ok(cn) => match diff(&cn, exp, "") {
                None => Ok(cn),
                Some(d) => Err((d, cn)),
              },
            },
          };
          match verdict {
            Ok(cn) => {
              if out.outcomes.len() < 400 {
                out.outcomes.insert(outcome_tag(&cn));
              }
              // oracle 2: equal to the single-segment layout of the same corpus
              let masked = if q.const_score { cn } else { canon(&c.agg, obs_raw.as_ref().unwrap(), true).unwrap_or(Value::Null) };
              let mut differs = None;
              if li == 0 {
                base_pass[qi][ai] = Some(true);
                base_canon[qi][ai] = Some(masked.clone());
              } else if let (Some(true), Some(b)) = (base_pass[qi][ai], &base_canon[qi][ai]) {
                out.layout_cmp += 1;
                if let Some(d) = diff(&masked, b, "").or_else(|| diff(b, &masked, "")) {
                  out.fail(None, || format!("docs={} deleted={:?} query={} agg {}={}: layout {:?} and the single-segment layout both satisfy the oracle but differ from each other: {d}", json!(world.docs), deleted, q.name, c.name, c.agg, layout), || {
                    let mut cj = case_json(&world, q, c);
                    cj["kind"] = json!("layouts");
                    cj
                  });
                  differs = Some(d);
                }
              }
              if seen[qi][ai].len() < 8 {
                seen[qi][ai].push(Seen { sid, resp: resp.unwrap().clone(), is_base: li == 0, differs });
              }
            }
            Err((d, cn)) => {
              let t4 = std::time::Instant::now();
              if li == 0 {
                base_pass[qi][ai] = Some(false);
              }
              out.outcomes.insert(format!("FAIL:{}", c.agg["type"].as_str().unwrap_or("?")));
              let sig = classify(&reader, &world, q, &c.agg, obs_raw.as_ref(), &docs, if li == 0 { None } else { base_pass[qi][ai] });
              let matched: Vec<&str> = docs.iter().map(|d| d.id).collect();
              out.fail(
                sig,
                || format!("docs={} layout={:?} deleted={:?} query={} (matches {:?}) agg {}={}: {d}; observed {} expected {}", json!(world.docs), layout, deleted, q.name, matched, c.name, c.agg, cn, exp),
                || case_json(&world, q, c),
              );
              t_fail += t4.elapsed().as_secs_f64();
            }
          }
        }
        out.t[2] += t_oracle;
        out.t[3] += t3.elapsed().as_secs_f64() - t_fail - t_oracle;
        out.t[4] += t_fail;
      }
    }
  }
  out
}

// ---------------------------------------------------------------------------------------------
// Gap family: segments whose histogram bucket lists have the same length and the same end keys
// but different interior keys (e.g. {0,10,30} vs {0,20,30}).

const GAP_F: [f64; 6] = [0.5, 1.5, 2.5, 3.5, 4.5, 5.5];
const GAP_N: [i64; 6] = [1, 12, 25, 35, 48, 53];

fn gap_doc(g: usize, pos: usize) -> Value {
  json!({"body": "a", "kw": "x", "kw2": if pos % 2 == 0 { "p" } else { "q" }, "n": GAP_N[g], "f": GAP_F[g], "ts": (g as i64) * 86_400_000})
}

fn gap_aggs() -> Vec<AggCase> {
  let mut out = Vec::new();
  let mut add = |name: &str, agg: Value| out.push(AggCase { name: name.to_string(), agg });
  let st_n = [("s", json!({"type": "stats", "field": "n"}))];
  let st_f = [("s", json!({"type": "stats", "field": "f"}))];
  let hist_f = with_subs(json!({"type": "histogram", "field": "f", "interval": 1.0}), &st_n);
  let hist_n = with_subs(json!({"type": "histogram", "field": "n", "interval": 10.0}), &st_f);
  let dh_day = with_subs(json!({"type": "date_histogram", "field": "ts", "calendar_interval": "day", "min_doc_count": 1}), &st_n);
  let dh_fixed = with_subs(json!({"type": "date_histogram", "field": "ts", "fixed_interval": "1d"}), &st_n);
  add("gap_hist_f", hist_f.clone());
  add("gap_hist_n", hist_n.clone());
  add("gap_hist_n_off_mdc1", with_subs(json!({"type": "histogram", "field": "n", "interval": 10.0, "offset": 5.0, "min_doc_count": 1}), &st_f));
  add("gap_hist_f_ext", with_subs(json!({"type": "histogram", "field": "f", "interval": 1.0, "min_doc_count": 0, "extended_bounds": {"min": 1.0, "max": 3.9}}), &st_n));
  add("gap_dh_fixed_1d", dh_fixed.clone());
  add("gap_dh_fixed_12h", with_subs(json!({"type": "date_histogram", "field": "ts", "fixed_interval": "12h", "min_doc_count": 1}), &[("vc", json!({"type": "value_count", "field": "f"}))]));
  add("gap_dh_day", dh_day.clone());
  add("gap_terms>hist_f", with_subs(json!({"type": "terms", "field": "kw"}), &[("in", hist_f.clone())]));
  add("gap_terms_kw2>hist_n", with_subs(json!({"type": "terms", "field": "kw2"}), &[("in", hist_n.clone())]));
  add("gap_terms>dh_day", with_subs(json!({"type": "terms", "field": "kw"}), &[("in", dh_day)]));
  add("gap_terms>dh_fixed", with_subs(json!({"type": "terms", "field": "kw"}), &[("in", dh_fixed)]));
  add("gap_filter>hist_n", with_subs(json!({"type": "filter", "filter": {"KeywordEq": {"field": "kw", "value": "x"}}}), &[("in", hist_n)]));
  add("gap_range>hist_f", with_subs(json!({"type": "range", "field": "n", "keyed": false, "ranges": [{"key": "all"}, {"key": "low", "to": 30.5}]}), &[("in", hist_f)]));
  out
}

fn k_subsets(n: usize, k: usize) -> Vec<Vec<usize>> {
  subsets(n, k).into_iter().filter(|s| s.len() == k).collect()
}

/// (documents, layouts) of the gap family; the first layout is the single-segment reference.
fn gap_worlds(quick: bool) -> Vec<(Vec<Value>, Vec<Vec<usize>>)> {
  let mut out = Vec::new();
  let grid = if quick { 5 } else { 6 };
  let mut push = |parts: &[&Vec<usize>], layouts: Vec<Vec<usize>>| {
    let mut docs = Vec::new();
    for p in parts {
      for g in p.iter() {
        docs.push(gap_doc(*g, docs.len()));
      }
    }
    out.push((docs, layouts));
  };
  for k in [3usize, 4] {
    let subs = k_subsets(grid, k);
    for a in &subs {
      for b in &subs {
        push(&[a, b], vec![vec![2 * k], vec![k, k]]);
      }
    }
  }
  if !quick {
    let subs = k_subsets(5, 3);
    for a in &subs {
      for b in &subs {
        for c in &subs {
          push(&[a, b, c], vec![vec![9], vec![3, 3, 3], vec![3, 6], vec![6, 3]]);
        }
      }
    }
  }
  out
}

fn replay_once(cs: &Value) -> Option<String> {
  let world = World::from_json(&cs["world"]);
  let q = QSpec::from_json(&cs["query"]);
  let agg = &cs["agg"];
  let idx = world.build();
  let reader = idx.reader().expect("reader");
  let v = check_one(&reader, &world, &q, agg, Flags::default());
  if cs["kind"] == "layouts" {
    // compare with the single-segment layout
    let mut base = world.clone();
    base.layout = vec![world.docs.len()];
    let bidx = base.build();
    let breader = bidx.reader().expect("reader");
    let get = |r: &IndexReader, w: &World| -> Option<Value> {
      let mut m = BTreeMap::new();
      m.insert("x".to_string(), serde_json::from_value::<Aggregation>(agg.clone()).ok()?);
      let res = run_aggs(r, &q.template(), w.docs.len(), &m).ok()?;
      canon(agg, &serde_json::to_value(res.aggregations.get("x")?).ok()?, !q.const_score).ok()
    };
    return match (get(&reader, &world), get(&breader, &base)) {
      (Some(a), Some(b)) => diff(&a, &b, "").or_else(|| diff(&b, &a, "")).map(|d| format!("layout {:?} vs single segment: {d}", world.layout)),
      _ => Some("could not evaluate both layouts".into()),
    };
  }
  match v {
    Verdict::Fail { what, obs } => Some(format!("{what}; observed {obs}")),
    _ => None,
  }
}

pub fn replay_with(prop: &str, path: &str, f: &dyn Fn(&Value) -> Option<String>) -> i32 {
  let v: Value = serde_json::from_slice(&std::fs::read(path).expect("replay file")).expect("json");
  let cs = &v["case"];
  let (a, b) = (f(cs), f(cs));
  if a.is_some() != b.is_some() {
    vcore::ev::machinery_failure("NONDETERMINISM on replay");
  }
  match a {
    Some(w) => {
      println!("VIOLATION property={prop} replay={path}\n  what: {w}");
      1
    }
    None => {
      println!("replay: no violation");
      0
    }
  }
}

pub fn run(ctx: &Ctx) -> i32 {
  let mut rep = Reporter::new("C12", ctx.tier, "exploration");
  let quick = ctx.tier.is_quick();
  if let Some(path) = &ctx.replay {
    rep.set_replaying(true);
    return replay_with("C12", path, &replay_once);
  }
  let queries = c12_queries();
  let tmpls: Vec<SearchRequest> = queries.iter().map(|q| q.template()).collect();
  let cases = agg_alphabet(quick);
  let parsed = parse_aggs(&cases);
  let (nshapes, max_len) = if quick { (8, 4) } else { (10, 5) };
  // corpora are *sequences* of shapes so that every grouping of shapes into segments occurs.
  // quick: length <= 3 over 8 shapes, length 4 over the first 3;
  // thorough: length <= 3 over 10 shapes, length 4 over 8, length 5 over the first 5.
  let mut all: Vec<Vec<usize>> = Vec::new();
  if quick {
    all.extend(corpora(nshapes, 1, 3));
    all.extend(corpora(3, 4, 4));
  } else {
    all.extend(corpora(nshapes, 1, 3));
    all.extend(corpora(8, 4, 4));
    all.extend(corpora(5, 5, max_len));
  }
  let deadline = if quick { 27.0 } else { 840.0 };
  let mut tot = CorpusOut::default();
  let mut by_sig: BTreeMap<String, u64> = BTreeMap::new();
  let mut done = 0usize;
  let mut timed_out = false;
  // gap family first (cheap, must not fall victim to the wall budget); reported after the main
  // space so that the smallest worlds are reported first
  let gap_cases = gap_aggs();
  let gap_parsed = parse_aggs(&gap_cases);
  let gap_queries = vec![
    QSpec { name: "match_all", query: json!({"type": "match_all"}), filter: None, const_score: true },
    QSpec { name: "filter_kw2_p", query: json!({"type": "match_all"}), filter: Some(json!({"KeywordEq": {"field": "kw2", "value": "p"}})), const_score: true },
  ];
  let gap_tmpls: Vec<SearchRequest> = gap_queries.iter().map(|q| q.template()).collect();
  let gap_plan = gap_worlds(quick);
  let gap_outs: Vec<CorpusOut> = gap_plan.par_iter().map(|(docs, layouts)| check_docs(docs, vec![(vec![], layouts.clone())], &gap_queries, &gap_tmpls, &gap_cases, &gap_parsed)).collect();
  let gap_worlds_n: u64 = gap_outs.iter().map(|o| o.worlds).sum();
  let gap_evals: u64 = gap_outs.iter().map(|o| o.evals).sum();
  let mut absorb = |o: CorpusOut| {
    // further cases of a class repeat the class's stored witness (a replay file must be usable)
    let first: Vec<(Option<&'static str>, String, Value)> = o.more.iter().filter_map(|(sig, _)| o.fails.iter().find(|f| f.sig == *sig).map(|f| (*sig, f.what.clone(), f.case.clone()))).collect();
    for f in o.fails {
      *by_sig.entry(f.sig.unwrap_or("unexplained").to_string()).or_default() += 1;
      rep.fail(f.sig, &f.what, f.case);
    }
    for (sig, k) in o.more {
      *by_sig.entry(sig.unwrap_or("unexplained").to_string()).or_default() += k;
      let w = first.iter().find(|x| x.0 == sig);
      for _ in 0..k {
        match w {
          Some(w) if rep.violations() < 6 => rep.fail(sig, &w.1, w.2.clone()),
          _ => rep.fail(sig, "(further case of the same class in the same corpus)", json!({})),
        }
      }
    }
    tot.evals += o.evals;
    tot.worlds += o.worlds;
    tot.nontrivial += o.nontrivial;
    tot.layout_cmp += o.layout_cmp;
    for i in 0..5 {
      tot.t[i] += o.t[i];
    }
    for (k, v) in o.skipped {
      *tot.skipped.entry(k).or_default() += v;
    }
    tot.outcomes.extend(o.outcomes);
  };
  for chunk in all.chunks(if quick { 32 } else { 128 }) {
    if rep.elapsed_s() > deadline {
      timed_out = true;
      break;
    }
    let outs: Vec<CorpusOut> = chunk.par_iter().map(|c| check_corpus(c, &queries, &tmpls, &cases, &parsed)).collect();
    done += chunk.len();
    for o in outs {
      absorb(o);
    }
  }
  for o in gap_outs {
    absorb(o);
  }
  drop(absorb);
  rep.add_evals(tot.evals);
  rep.sample(json!({"corpus_shapes": all.get(all.len() / 2), "queries": queries.iter().map(|q| q.to_json()).collect::<Vec<_>>(), "agg_example": cases.last().map(|c| c.agg.clone())}));
  if tot.outcomes.len() < 2 {
    vcore::ev::machinery_failure("C12: fewer than two distinct outcomes observed");
  }
  let cov = vcore::cov! {
    "distinct_nontrivial" => tot.nontrivial,
    "rule" => "case = (corpus = sequence of document shapes, deletion set, segment layout, query, aggregation tree); non-trivial when at least 2 documents match and they lie in at least 2 segments. Oracle 1: independent aggregator over the matched live JSON documents; oracle 2: canonical response equal to that of the single-segment layout.",
    "corpora" => done,
    "corpora_planned" => all.len(),
    "worlds" => tot.worlds,
    "shapes" => nshapes,
    "max_docs" => max_len,
    "corpus_plan" => if quick { "len<=3 over 8 shapes, len 4 over 3" } else { "len<=3 over 10 shapes, len 4 over 8, len 5 over 5" },
    "queries" => queries.len(),
    "aggregation_trees" => cases.len(),
    "gap_family" => json!({"worlds": gap_worlds_n, "evaluations": gap_evals, "document_lists": gap_plan.len(), "aggregation_trees": gap_cases.len(), "rule": "every ordered pair (thorough: also triple) of k-element subsets of a value grid (k = 3, 4; grid 5 quick / 6 thorough), one subset per segment, vs the single-segment layout; histogram over f64 and i64, date_histogram fixed and calendar, each with a stats sub-aggregation, also nested under terms / filter / range"}),
    "layout_equalities_checked" => tot.layout_cmp,
    "skipped_undocumented" => tot.skipped,
    "failure_classes" => by_sig,
    "cpu_seconds_build_search_oracle_judge_failures" => tot.t.to_vec(),
    "distinct_observed_outcomes" => tot.outcomes.len(),
    "cap_hit" => if timed_out { Some(format!("wall budget {deadline}s")) } else { None },
    "exhaustive" => !timed_out,
  };
  rep.finish(cov, vec![
    "terms order = doc_count desc then key asc, rare_terms order = doc_count asc then key asc (Elasticsearch-style; the README only says 'favors low-frequency keys')".into(),
    "histogram / date_histogram key = floor((v - offset) / interval) * interval + offset; extended_statistics variance is the population variance; percentiles in exact mode use linear interpolation (only 0/50/100 are asked)".into(),
    "not compared because the docs are silent: keys of unnamed range buckets, the `keyed` response member, min/max/sum/avg of an empty value set, percentile values of an empty set, sub-aggregations of empty histogram buckets, empty histogram buckets when min_doc_count is absent or outside extended_bounds".into(),
    "left out of the alphabet: range values equal to a `to` bound, hard_bounds where value-based and key-based limiting differ, min_doc_count 0 without extended_bounds, terms min_doc_count 0, shard_size, rare_terms size, cardinality missing/precision_threshold, default percents, sampling, significant_terms, pipeline aggregations, t-digest mode".into(),
    "top_hits tie order = insertion order (README: ties broken by segment/doc id); top_hits scores are compared with the scores of the same response's hit list; across layouts scores are masked for the BM25 query".into(),
  ])
}
