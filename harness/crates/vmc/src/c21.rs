//! C21 — not implemented yet.
use crate::Ctx;

pub fn run(_ctx: &Ctx) -> i32 {
  eprintln!("C21: check not implemented");
  2
}
