//! C21 — highlights are well-formed for any text.
//! Engine: inputmc highlight — every short text over a mixed ASCII / Latin-1 / CJK / emoji word
//! alphabet x every word / adjacent-phrase query of the text x every fragment size from twice the
//! matched length up to the text length + 2 x fragment counts 0..3 x custom tags, through both the
//! `highlight` request (fragments) and the legacy `highlight_field` (snippet). A second family of
//! long padded texts pushes the match beyond the legacy snippet's fixed 120-byte window.
//!
//! Oracle (per returned fragment / snippet): non-empty; contains pre_tag..post_tag around text
//! that analyzes to query tokens only; with the tags removed it is a substring of the stored text;
//! char length (tags excluded) <= fragment_size; at most number_of_fragments fragments; only the
//! requested field appears in the highlights map.

use std::collections::{BTreeMap, BTreeSet};
use std::sync::atomic::{AtomicBool, AtomicU64, Ordering};

use parking_lot::Mutex;
use rayon::prelude::*;
use searchlite_core::api::IndexReader;
use serde_json::{json, Value};

use vcore::ev::Reporter;
use vcore::inp::*;
use vcore::world::*;

use crate::Ctx;

const WORDS: [&str; 8] = ["rust", "a", "café", "naïve", "日本", "検索", "😀", "e🙂f"];
const SEPS: [&str; 2] = [" ", ", "];
/// custom tag pairs; none of their characters occurs in any text of the alphabet
const TAGS: [(&str, &str); 2] = [("<em>", "</em>"), ("«[", "]»")];
const SNIPPET_TAG: &str = "**";
const SNIPPET_SIZE: usize = 120;
/// pad words of family B; with the separating space their strides (7, 7, 9, 2 bytes) put the fixed
/// 60-byte-back / 120-byte-long legacy window at every phase of the multi-byte characters once the
/// gap before the word is varied
const PADS: [&str; 4] = ["日本", "naïve", "😀😀", "a"];
const PAD_COUNTS: [usize; 7] = [0, 4, 8, 9, 10, 16, 32];

/// The genuine defect H16: highlight_fragments computes the fragment window in *bytes*
/// (`m.start() - fragment_size/2 .. + fragment_size`) and slices with
/// `text.get(start..end).unwrap_or("")`, so a window edge inside a multi-byte character yields "".
const SIG_SPLIT: &str = "C21-fragment-window-splits-multibyte-char";

#[derive(Clone, Debug)]
struct Tok {
  text: String,
  start: usize,
  end: usize,
}

/// Independent re-implementation of the documented default tokenizer (maximal runs of
/// alphanumeric characters, ASCII lower-cased) that also keeps byte offsets. Cross-checked against
/// the public analyzer for every text (machinery failure on disagreement).
fn toks(text: &str) -> Vec<Tok> {
  let mut out = Vec::new();
  let mut cur = String::new();
  let mut start = 0;
  for (i, ch) in text.char_indices() {
    if ch.is_alphanumeric() {
      if cur.is_empty() {
        start = i;
      }
      cur.push(ch.to_ascii_lowercase());
    } else if !cur.is_empty() {
      out.push(Tok { text: std::mem::take(&mut cur), start, end: i });
    }
  }
  if !cur.is_empty() {
    out.push(Tok { text: cur, start, end: text.len() });
  }
  out
}

#[derive(Clone, Debug)]
struct Q {
  /// the query string sent (legacy string query; phrases in double quotes as the README documents)
  raw: String,
  /// tokens of the query words, in order
  tokens: Vec<String>,
  phrase: bool,
  /// byte length of the query as typed (for a phrase: both words + the longest separator)
  typed_len: usize,
}

fn word_query(w: &str) -> Q {
  Q { raw: w.to_string(), tokens: toks(w).into_iter().map(|t| t.text).collect(), phrase: false, typed_len: w.len() }
}

fn phrase_query(a: &str, b: &str) -> Q {
  let mut tokens: Vec<String> = toks(a).into_iter().map(|t| t.text).collect();
  tokens.extend(toks(b).into_iter().map(|t| t.text));
  Q { raw: format!("\"{a} {b}\""), tokens, phrase: true, typed_len: a.len() + b.len() + 2 }
}

fn q_json(q: &Q) -> Value {
  json!({"raw": q.raw, "tokens": q.tokens, "phrase": q.phrase, "typed_len": q.typed_len})
}

fn q_from_json(v: &Value) -> Q {
  Q {
    raw: v["raw"].as_str().unwrap_or("").to_string(),
    tokens: v["tokens"].as_array().map(|a| a.iter().map(|x| x.as_str().unwrap_or("").to_string()).collect()).unwrap_or_default(),
    phrase: v["phrase"].as_bool().unwrap_or(false),
    typed_len: v["typed_len"].as_u64().unwrap_or(0) as usize,
  }
}

/// Occurrences of the whole token sequence of a phrase query in the text (consecutive tokens).
fn phrase_occurrences(tt: &[Tok], q: &Q) -> Vec<(usize, usize)> {
  let n = q.tokens.len();
  let mut out = Vec::new();
  if !q.phrase || n == 0 || tt.len() < n {
    return out;
  }
  for i in 0..=tt.len() - n {
    if (0..n).all(|j| tt[i + j].text == q.tokens[j]) {
      out.push((tt[i].start, tt[i + n - 1].end));
    }
  }
  out
}

/// Byte length of the longest stretch of text one match of this query can cover.
fn matched_len(tt: &[Tok], q: &Q) -> usize {
  let mut l = q.typed_len;
  for (s, e) in phrase_occurrences(tt, q) {
    l = l.max(e - s);
  }
  for t in tt {
    if q.tokens.contains(&t.text) {
      l = l.max(t.end - t.start);
    }
  }
  l
}

/// Model of the match sequence the fragments are centred on: leftmost match first, the next search
/// starting where the previous match ended. A quoted phrase query highlights whole phrase
/// occurrences only (its words are not highlighted on their own); a word query highlights every
/// occurrence of its tokens. Used by the classifier (and cross-checked on every passing case).
fn model_matches(tt: &[Tok], q: &Q) -> Vec<(usize, usize)> {
  let mut cands: Vec<(usize, usize, u8)> = Vec::new();
  for (s, e) in phrase_occurrences(tt, q) {
    cands.push((s, e, 0));
  }
  if !q.phrase {
    for t in tt {
      if q.tokens.contains(&t.text) {
        cands.push((t.start, t.end, 1));
      }
    }
  }
  cands.sort_by_key(|c| (c.0, c.2));
  let mut out = Vec::new();
  let mut pos = 0;
  for (s, e, _) in cands {
    if s >= pos {
      out.push((s, e));
      pos = e;
    }
  }
  out
}

fn window(text: &str, m_start: usize, fs: usize) -> (usize, usize) {
  let start = m_start.saturating_sub(fs / 2);
  let end = usize::min(text.len(), start.saturating_add(fs));
  (start, end)
}

fn window_splits(text: &str, m_start: usize, fs: usize) -> bool {
  let (s, e) = window(text, m_start, fs);
  !text.is_char_boundary(s) || !text.is_char_boundary(e)
}

/// Text between pre and post tags, left to right.
fn tagged_regions<'a>(frag: &'a str, pre: &str, post: &str) -> Vec<&'a str> {
  let mut out = Vec::new();
  let mut i = 0;
  while let Some(s) = frag[i..].find(pre) {
    let inner = i + s + pre.len();
    match frag[inner..].find(post) {
      Some(e) => {
        out.push(&frag[inner..inner + e]);
        i = inner + e + post.len();
      }
      None => break,
    }
  }
  out
}

/// The well-formedness oracle for one fragment / snippet.
fn check_fragment(text: &str, frag: &str, pre: &str, post: &str, fs: usize, q: &Q) -> Result<(), String> {
  if frag.is_empty() {
    return Err("is empty".into());
  }
  let regions = tagged_regions(frag, pre, post);
  let has_match = regions.iter().any(|r| {
    let t = toks(r);
    !t.is_empty() && t.iter().all(|x| q.tokens.contains(&x.text))
  });
  if !has_match {
    return Err(format!("contains no {pre}..{post} around a match of the query (tagged regions {regions:?})"));
  }
  let plain = frag.replace(pre, "").replace(post, "");
  if !text.contains(&plain) {
    return Err(format!("with the tags removed ({plain:?}) it is not a substring of the stored text"));
  }
  let chars = plain.chars().count();
  if chars > fs {
    return Err(format!("is {chars} characters long (tags excluded), more than fragment_size {fs}"));
  }
  Ok(())
}

#[derive(Clone, Copy, Debug, PartialEq)]
enum Mode {
  Highlight { fs: usize, nf: usize, tag: usize },
  Snippet,
}

impl Mode {
  fn to_json(self) -> Value {
    match self {
      Mode::Highlight { fs, nf, tag } => json!({"kind": "highlight", "fragment_size": fs, "number_of_fragments": nf, "pre_tag": TAGS[tag].0, "post_tag": TAGS[tag].1, "tag": tag}),
      Mode::Snippet => json!({"kind": "highlight_field"}),
    }
  }
  fn from_json(v: &Value) -> Mode {
    if v["kind"] == "highlight" {
      Mode::Highlight { fs: v["fragment_size"].as_u64().unwrap_or(1) as usize, nf: v["number_of_fragments"].as_u64().unwrap_or(1) as usize, tag: v["tag"].as_u64().unwrap_or(0) as usize }
    } else {
      Mode::Snippet
    }
  }
  fn request(self, q: &Q) -> Value {
    match self {
      Mode::Highlight { fs, nf, tag } => json!({"query": q.raw, "limit": 10,
        "highlight": {"fields": {"body": {"pre_tag": TAGS[tag].0, "post_tag": TAGS[tag].1, "fragment_size": fs, "number_of_fragments": nf}}}}),
      Mode::Snippet => json!({"query": q.raw, "limit": 10, "highlight_field": "body"}),
    }
  }
}

struct Verdict {
  /// outcome label (for the distinct-outcome count)
  outcome: String,
  /// fragments / snippets returned and checked
  checked: usize,
  /// Some((signature, description)) on a violation
  fail: Option<(Option<&'static str>, String)>,
  /// the independent match model predicted exactly the returned windows
  model_agrees: bool,
}

/// Run one case against the real code and apply the oracle.
fn eval_case(reader: &IndexReader, text: &str, tt: &[Tok], q: &Q, mode: Mode) -> Verdict {
  let request = mode.request(q);
  let res = match try_req(request.clone()) {
    Ok(r) => search_caught(reader, &r),
    Err(e) => return Verdict { outcome: "request-rejected".into(), checked: 0, fail: Some((None, format!("request {request} rejected: {e:#}"))), model_agrees: true },
  };
  let res = match res {
    Ok(r) => r,
    Err(e) if e.starts_with("PANIC") => {
      return Verdict { outcome: "panic".into(), checked: 0, fail: Some((None, format!("search panicked: {e}"))), model_agrees: true };
    }
    // an error for a query without any token (an emoji) is not this property's business
    Err(_) => return Verdict { outcome: "search-error".into(), checked: 0, fail: None, model_agrees: true },
  };
  if res.hits.is_empty() {
    return Verdict { outcome: "no-hit".into(), checked: 0, fail: None, model_agrees: true };
  }
  let model = model_matches(tt, q);
  let mut checked = 0;
  let mut agrees = true;
  for h in &res.hits {
    match mode {
      Mode::Highlight { fs, nf, tag } => {
        let (pre, post) = TAGS[tag];
        if h.snippet.is_some() {
          return Verdict { outcome: "fail".into(), checked, fail: Some((None, "a snippet was returned although highlight_field was not requested".into())), model_agrees: agrees };
        }
        let empty = BTreeMap::new();
        let map = h.highlights.as_ref().unwrap_or(&empty);
        if let Some(k) = map.keys().find(|k| k.as_str() != "body") {
          return Verdict { outcome: "fail".into(), checked, fail: Some((None, format!("highlights contain the unrequested field {k:?}"))), model_agrees: agrees };
        }
        let frags: &[String] = map.get("body").map(|v| v.as_slice()).unwrap_or(&[]);
        if frags.len() > nf {
          return Verdict { outcome: "fail".into(), checked, fail: Some((None, format!("{} fragments returned for number_of_fragments {nf}: {frags:?}", frags.len()))), model_agrees: agrees };
        }
        if frags.len() != nf.min(model.len()) {
          agrees = false;
        }
        for (k, f) in frags.iter().enumerate() {
          checked += 1;
          let predicted = model.get(k).map(|m| (window(text, m.0, fs), window_splits(text, m.0, fs)));
          if let Err(why) = check_fragment(text, f, pre, post, fs, q) {
            // classifier: the fragment is empty AND the byte window around the k-th match of the
            // query really has an edge inside a multi-byte character of the stored text
            let sig = match predicted {
              Some(((ws, we), true)) if f.is_empty() => {
                let _ = (ws, we);
                Some(SIG_SPLIT)
              }
              _ => None,
            };
            let detail = match predicted {
              Some(((ws, we), split)) => format!(" [byte window of match {k}: {ws}..{we} of {} bytes, edge inside a multi-byte char: {split}]", text.len()),
              None => String::new(),
            };
            return Verdict { outcome: format!("fail:{}", sig.unwrap_or("unexplained")), checked, fail: Some((sig, format!("fragment {k} {f:?} {why}{detail}; all fragments {frags:?}"))), model_agrees: agrees };
          }
          match predicted {
            Some(((ws, we), false)) => {
              if f.replace(pre, "").replace(post, "") != text[ws..we] {
                agrees = false;
              }
            }
            _ => agrees = false,
          }
        }
      }
      Mode::Snippet => {
        if h.highlights.is_some() {
          return Verdict { outcome: "fail".into(), checked, fail: Some((None, "a highlights map was returned although only highlight_field was requested".into())), model_agrees: agrees };
        }
        if let Some(s) = &h.snippet {
          checked += 1;
          let predicted = model.first().map(|m| (window(text, m.0, SNIPPET_SIZE), window_splits(text, m.0, SNIPPET_SIZE)));
          if let Err(why) = check_fragment(text, s, SNIPPET_TAG, SNIPPET_TAG, SNIPPET_SIZE, q) {
            let sig = match predicted {
              Some((_, true)) if s.is_empty() => Some(SIG_SPLIT),
              _ => None,
            };
            let detail = match predicted {
              Some(((ws, we), split)) => format!(" [byte window of the first match: {ws}..{we} of {} bytes, edge inside a multi-byte char: {split}]", text.len()),
              None => String::new(),
            };
            return Verdict { outcome: format!("fail:{}", sig.unwrap_or("unexplained")), checked, fail: Some((sig, format!("snippet {s:?} {why}{detail}"))), model_agrees: agrees };
          }
          match predicted {
            Some(((ws, we), false)) => {
              if s.replace(SNIPPET_TAG, "") != text[ws..we] {
                agrees = false;
              }
            }
            _ => agrees = false,
          }
        } else if !model.is_empty() {
          agrees = false;
        }
      }
    }
  }
  Verdict { outcome: format!("ok:{checked}"), checked, fail: None, model_agrees: agrees }
}

fn mk_world(text: &str) -> World {
  World::new("text", schema_text_default(), vec![json!({"_id": "A", "body": text})])
}

fn case_json(text: &str, q: &Q, mode: Mode) -> Value {
  json!({"engine": "inputmc-highlight", "world": mk_world(text).to_json(), "text": text, "query": q_json(q), "mode": mode.to_json(), "request": mode.request(q)})
}

/// Queries of a word sequence: every distinct word, then every distinct adjacent pair as a phrase.
fn queries_of(words: &[&str]) -> Vec<Q> {
  let mut out = Vec::new();
  let mut seen = BTreeSet::new();
  for w in words {
    if seen.insert(w.to_string()) {
      out.push(word_query(w));
    }
  }
  for p in words.windows(2) {
    let key = format!("{}\u{0}{}", p[0], p[1]);
    if seen.insert(key) {
      out.push(phrase_query(p[0], p[1]));
    }
  }
  out
}

struct TextItem {
  text: String,
  words: Vec<&'static str>,
  /// family B (long padded text, legacy snippet only)
  long: bool,
}

fn enumerate_texts(max_words: usize) -> Vec<TextItem> {
  let widx: Vec<usize> = (0..WORDS.len()).collect();
  let sidx: Vec<usize> = (0..SEPS.len()).collect();
  let mut out = Vec::new();
  for n in 1..=max_words {
    for ws in sequences(&widx, n, n) {
      for ss in sequences(&sidx, n - 1, n - 1) {
        let mut text = String::new();
        for (i, w) in ws.iter().enumerate() {
          if i > 0 {
            text.push_str(SEPS[ss[i - 1]]);
          }
          text.push_str(WORDS[*w]);
        }
        out.push(TextItem { text, words: ws.iter().map(|w| WORDS[*w]).collect(), long: false });
      }
    }
  }
  out
}

/// Family B: (pad + " ") x k, g extra spaces, the query word, (" " + pad) x j — the match sits up
/// to ~290 bytes into the text so that the legacy snippet's fixed 120-byte window has real left and
/// right edges, at every byte phase of the pad characters.
fn enumerate_long_texts() -> Vec<TextItem> {
  let mut out = Vec::new();
  for j in [0usize, 32] {
    for k in PAD_COUNTS {
      for gap in 0..=3usize {
        for p in PADS {
          for w in WORDS {
            if w == p {
              continue;
            }
            let mut text = String::new();
            for _ in 0..k {
              text.push_str(p);
              text.push(' ');
            }
            for _ in 0..gap {
              text.push(' ');
            }
            text.push_str(w);
            for _ in 0..j {
              text.push(' ');
              text.push_str(p);
            }
            out.push(TextItem { text, words: vec![w], long: true });
          }
        }
      }
    }
  }
  out
}

struct Failure {
  key: (usize, usize, usize),
  sig: Option<&'static str>,
  text: String,
  q: Q,
  mode: Mode,
  what: String,
}

pub fn run(ctx: &Ctx) -> i32 {
  let mut rep = Reporter::new("C21", ctx.tier, "exploration");
  let quick = ctx.tier.is_quick();
  if let Some(path) = &ctx.replay {
    rep.set_replaying(true);
    let v: Value = serde_json::from_slice(&std::fs::read(path).expect("replay file")).expect("json");
    let cs = &v["case"];
    let world = World::from_json(&cs["world"]);
    let text = world.docs[0]["body"].as_str().expect("body").to_string();
    let q = q_from_json(&cs["query"]);
    let mode = Mode::from_json(&cs["mode"]);
    let run = || {
      let idx = world.build();
      let reader = idx.reader().expect("reader");
      eval_case(&reader, &text, &toks(&text), &q, mode).fail.map(|f| f.1)
    };
    let (a, b) = (run(), run());
    if a.is_some() != b.is_some() {
      vcore::ev::machinery_failure("NONDETERMINISM on replay");
    }
    return match a {
      Some(w) => {
        println!("VIOLATION property=C21 replay={path}\n  what: text {text:?} request {}: {w}", mode.request(&q));
        1
      }
      None => {
        println!("replay: no violation");
        0
      }
    };
  }

  let max_words = if quick { 3 } else { 4 };
  // order: texts of <= 2 words, the long-text family, then the larger layers
  let all_short = enumerate_texts(max_words);
  let short_texts = all_short.len();
  let long = enumerate_long_texts();
  let long_texts = long.len();
  let (small, large): (Vec<TextItem>, Vec<TextItem>) = all_short.into_iter().partition(|t| t.words.len() <= 2);
  let mut items = small;
  items.extend(long);
  items.extend(large);

  let analyzers = schema(schema_text_default()).build_analyzers().expect("analyzers");
  let deadline = if quick { 33.0 } else { 800.0 };
  let timed_out = AtomicBool::new(false);
  let evals = AtomicU64::new(0);
  let frag_cases = AtomicU64::new(0);
  let snip_cases = AtomicU64::new(0);
  let checked_frags = AtomicU64::new(0);
  let nontrivial = AtomicU64::new(0);
  let cut_mid_char = AtomicU64::new(0);
  let model_disagree = AtomicU64::new(0);
  let no_highlight_for_hit = AtomicU64::new(0);
  let outcomes: Mutex<BTreeMap<String, u64>> = Mutex::new(BTreeMap::new());
  let failures: Mutex<Vec<Failure>> = Mutex::new(Vec::new());
  // memory bound: failures are kept individually for the early (simplest) texts, for anything
  // unexplained, and up to STORE_CAP overall; the rest is only counted per class
  const STORE_CAP: u64 = 20_000;
  let early_cut = items.iter().take_while(|t| t.long || t.words.len() <= 2).count();
  let stored = AtomicU64::new(0);
  let dropped: Mutex<BTreeMap<(Option<&'static str>, bool), u64>> = Mutex::new(BTreeMap::new());
  let tok_mismatch: Mutex<Option<String>> = Mutex::new(None);

  items.par_iter().enumerate().for_each(|(ti, item)| {
    if rep.elapsed_s() > deadline {
      timed_out.store(true, Ordering::Relaxed);
      return;
    }
    let text = item.text.as_str();
    let tt = toks(text);
    // the oracle's tokenizer must agree with the real analyzer
    if let Some(an) = analyzers.index_analyzer("body") {
      let real: Vec<String> = an.analyze(text).into_iter().map(|t| t.text).collect();
      let mine: Vec<String> = tt.iter().map(|t| t.text.clone()).collect();
      if real != mine {
        *tok_mismatch.lock() = Some(format!("text {text:?}: analyzer {real:?} vs oracle tokenizer {mine:?}"));
        return;
      }
    }
    let idx = mk_world(text).build();
    let reader = idx.reader().expect("reader");
    let mut local_out: BTreeMap<String, u64> = BTreeMap::new();
    let mut local_dropped: BTreeMap<(Option<&'static str>, bool), u64> = BTreeMap::new();
    let mut case_no = 0usize;
    let qs = queries_of(&item.words);
    for (qi, q) in qs.iter().enumerate() {
      let mut modes: Vec<Mode> = vec![Mode::Snippet];
      if !item.long {
        let l = matched_len(&tt, q);
        let lo = 2 * l;
        let hi = usize::max(text.len() + 2, lo);
        for fs in lo..=hi {
          for nf in 0..=3usize {
            for tag in 0..TAGS.len() {
              // quick tier and the 4-word layer: both tag pairs for number_of_fragments 1, one
              // (alternating) otherwise
              if (quick || item.words.len() >= 4) && nf != 1 && tag != nf % 2 {
                continue;
              }
              modes.push(Mode::Highlight { fs, nf, tag });
            }
          }
        }
      }
      for mode in modes {
        case_no += 1;
        evals.fetch_add(1, Ordering::Relaxed);
        let v = eval_case(&reader, text, &tt, q, mode);
        *local_out.entry(v.outcome.clone()).or_insert(0) += 1;
        checked_frags.fetch_add(v.checked as u64, Ordering::Relaxed);
        let (fs, nf) = match mode {
          Mode::Highlight { fs, nf, .. } => {
            frag_cases.fetch_add(1, Ordering::Relaxed);
            (fs, nf)
          }
          Mode::Snippet => {
            snip_cases.fetch_add(1, Ordering::Relaxed);
            (SNIPPET_SIZE, 1)
          }
        };
        let model = model_matches(&tt, q);
        if nf > 0 && model.iter().take(nf).any(|m| window_splits(text, m.0, fs)) {
          cut_mid_char.fetch_add(1, Ordering::Relaxed);
        }
        if v.checked > 0 && fs < text.len() {
          nontrivial.fetch_add(1, Ordering::Relaxed);
          if v.fail.is_none() && !rep.sample_full() {
            rep.sample(json!({"text": text, "request": mode.request(q), "fragments_checked": v.checked}));
          }
        }
        if !v.model_agrees && v.fail.is_none() {
          model_disagree.fetch_add(1, Ordering::Relaxed);
        }
        if v.outcome == "ok:0" && nf > 0 && !q.tokens.is_empty() {
          no_highlight_for_hit.fetch_add(1, Ordering::Relaxed);
        }
        if let Some((sig, what)) = v.fail {
          if sig.is_none() || ti < early_cut || stored.load(Ordering::Relaxed) < STORE_CAP {
            stored.fetch_add(1, Ordering::Relaxed);
            failures.lock().push(Failure { key: (ti, qi, case_no), sig, text: text.to_string(), q: q.clone(), mode, what });
          } else {
            *local_dropped.entry((sig, mode == Mode::Snippet)).or_insert(0) += 1;
          }
        }
      }
    }
    let mut o = outcomes.lock();
    for (k, n) in local_out {
      *o.entry(k).or_insert(0) += n;
    }
    drop(o);
    if !local_dropped.is_empty() {
      let mut d = dropped.lock();
      for (k, n) in local_dropped {
        *d.entry(k).or_insert(0) += n;
      }
    }
  });
  if let Some(m) = tok_mismatch.lock().clone() {
    vcore::ev::machinery_failure(&format!("oracle tokenizer disagrees with the analyzer: {m}"));
  }
  rep.add_evals(evals.load(Ordering::Relaxed));

  // report failures in enumeration order (simplest text first), so the first witness is minimal
  let mut fails = std::mem::take(&mut *failures.lock());
  fails.sort_by_key(|f| f.key);
  let mut by_sig: BTreeMap<String, u64> = BTreeMap::new();
  let mut by_mode: BTreeMap<String, u64> = BTreeMap::new();
  let mut first_of_sig: BTreeMap<String, Value> = BTreeMap::new();
  for (i, f) in fails.iter().enumerate() {
    let label = f.sig.unwrap_or("unexplained").to_string();
    *by_sig.entry(label.clone()).or_insert(0) += 1;
    *by_mode.entry(format!("{}/{}", label, if f.mode == Mode::Snippet { "highlight_field snippet" } else { "highlight fragments" })).or_insert(0) += 1;
    let what = format!("text {:?} request {}: {}", f.text, f.mode.request(&f.q), f.what);
    let first = !first_of_sig.contains_key(&label);
    if first {
      first_of_sig.insert(label, json!({"text": f.text, "request": f.mode.request(&f.q), "what": f.what}));
    }
    let cj = if i < 64 || first { case_json(&f.text, &f.q, f.mode) } else { Value::Null };
    rep.fail(f.sig, &what, cj);
  }
  for ((sig, snippet), n) in dropped.lock().iter() {
    let label = sig.unwrap_or("unexplained").to_string();
    *by_sig.entry(label.clone()).or_insert(0) += n;
    *by_mode.entry(format!("{}/{}", label, if *snippet { "highlight_field snippet" } else { "highlight fragments" })).or_insert(0) += n;
    for _ in 0..*n {
      rep.fail(*sig, "further case of the same class (counted, not stored individually)", Value::Null);
    }
  }

  let to = timed_out.load(Ordering::Relaxed);
  let outs = outcomes.lock().clone();
  if outs.len() < 2 {
    vcore::ev::machinery_failure("C21: fewer than 2 distinct outcomes observed (vacuous)");
  }
  let cov = vcore::cov! {
    "distinct_nontrivial" => nontrivial.load(Ordering::Relaxed),
    "rule" => "family A: every text of 1..=N words over {rust, a, café, naïve, 日本, 検索, 😀, e🙂f} with separators {\" \", \", \"} (one stored doc per index) x every distinct word of the text as a string query and every distinct adjacent word pair as a quoted phrase query x [highlight_field snippet] + [highlight: fragment_size from 2*L to max(len(text)+2, 2*L) step 1 (L = byte length of the longest text one match can cover, >= the query as typed; len in bytes) x number_of_fragments 0..3 x 2 custom tag pairs (quick tier and 4-word texts: both pairs only for number_of_fragments 1, one alternating pair otherwise)]; family B: (pad+' ')^k + ' '^g + word + (' '+pad)^j, pad in {日本, naïve, 😀😀, a}, k in {0,4,8,9,10,16,32}, g 0..3, j in {0,32}, word != pad, legacy snippet only (the fixed 120-byte window gets real left/right edges at every byte phase of the pad characters). A case is non-trivial when at least one fragment/snippet was returned and checked and the fragment size is smaller than the text (the window really cuts).",
    "max_words" => max_words,
    "texts_family_a" => short_texts,
    "texts_family_b" => long_texts,
    "highlight_cases" => frag_cases.load(Ordering::Relaxed),
    "snippet_cases" => snip_cases.load(Ordering::Relaxed),
    "fragments_checked" => checked_frags.load(Ordering::Relaxed),
    "cases_whose_byte_window_has_an_edge_inside_a_multibyte_char" => cut_mid_char.load(Ordering::Relaxed),
    "passing_cases_where_the_match_model_disagrees_with_the_returned_windows" => model_disagree.load(Ordering::Relaxed),
    "hits_with_query_tokens_but_no_fragment" => no_highlight_for_hit.load(Ordering::Relaxed),
    "outcomes" => outs,
    "distinct_observed_outcomes" => outs.len(),
    "failures_by_signature" => by_sig,
    "failures_by_signature_and_mode" => by_mode,
    "first_witness_by_signature" => first_of_sig,
    "cap_hit" => if to { Some(format!("wall budget {deadline}s")) } else { None },
    "exhaustive" => !to,
  };
  rep.finish(
    cov,
    vec![
      "fragment_size precondition uses byte lengths (bytes >= chars, so 2*L in bytes is the stricter reading); the length bound demanded of a fragment is in characters (the weaker reading)".into(),
      "number_of_fragments 0 is outside the documented domain (search-request.schema.json: minimum 1); it is accepted by the API and only 'at most 0 fragments' is demanded".into(),
      "a hit without any fragment/snippet is not a violation (the property speaks about returned fragments); such cases are counted in coverage".into(),
      "a tagged match is any pre_tag..post_tag region whose text analyzes to query tokens only; which occurrence is highlighted is not demanded".into(),
      "queries without any token (the emoji word) are sent but nothing is demanded of an error or empty result".into(),
      "stored text and query are lower-case; case folding, stemming, synonyms and edge n-grams are left out".into(),
    ],
  )
}
