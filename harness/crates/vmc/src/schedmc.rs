//! C05 / C06 — schedmc: all schedules (iterative preemption bounding) of small thread programs on
//! the real Index / IndexWriter / IndexReader code, under the baton scheduler of vcore::sched.
//!
//! The hooks handler is process-global, so one process explores one program set at a time; the
//! parent fans program sets out to worker subprocesses.

use std::collections::{BTreeMap, BTreeSet, HashSet};
use std::io::Write as _;
use std::sync::Arc;
use std::time::{Duration, Instant};

use parking_lot::Mutex;
use rayon::prelude::*;
use serde::{Deserialize, Serialize};
use serde_json::{json, Value};

use searchlite_core::api::types::StorageType;
use searchlite_core::api::{Index, IndexReader, IndexWriter};
use vcore::ev::Reporter;
use vcore::hist::{schema_s3, version_doc};
use vcore::sched::{explore, ChoicePoint, FinishGuard, Sched, SchedHandler};
use vcore::world::*;

use crate::Ctx;

#[derive(Debug, Clone, PartialEq, Eq, Hash, Serialize, Deserialize)]
pub enum Call {
  New,
  Add(String, String),
  Del(String),
  Commit,
  Rollback,
  Compact,
  ReaderOpen,
  Search,
}

impl Call {
  fn short(&self) -> String {
    match self {
      Call::New => "new".into(),
      Call::Add(i, v) => format!("add({i}{v})"),
      Call::Del(i) => format!("del({i})"),
      Call::Commit => "commit".into(),
      Call::Rollback => "rollback".into(),
      Call::Compact => "compact".into(),
      Call::ReaderOpen => "reader".into(),
      Call::Search => "search".into(),
    }
  }
  fn takes_writer_lock(&self) -> bool {
    !matches!(self, Call::ReaderOpen | Call::Search)
  }
}

#[derive(Debug, Clone, Serialize, Deserialize)]
pub struct Spec {
  pub prop: String,
  pub base: usize,
  pub programs: Vec<Vec<Call>>,
  pub max_bound: usize,
  pub max_execs: u64,
  pub budget_s: f64,
}

fn spec_name(s: &Spec) -> String {
  let ps: Vec<String> = s.programs.iter().map(|p| p.iter().map(|c| c.short()).collect::<Vec<_>>().join(",")).collect();
  format!("base{} {{{}}}", s.base, ps.join(" | "))
}

#[derive(Debug, Clone, Serialize, Deserialize)]
pub struct CallResult {
  pub ok: bool,
  pub err: Option<String>,
  pub contents: Option<BTreeMap<String, Value>>,
}

type Contents = BTreeMap<String, String>; // id -> version

fn base_history(base: usize) -> (Vec<Vec<(&'static str, &'static str)>>, Contents) {
  // list of commits, each a list of (id, version) adds
  match base {
    0 => (vec![], BTreeMap::new()),
    1 => (vec![vec![("A", "1")]], [("A".to_string(), "1".to_string())].into_iter().collect()),
    _ => (
      vec![vec![("A", "1"), ("B", "1")], vec![("A", "2")]],
      [("A".to_string(), "2".to_string()), ("B".to_string(), "1".to_string())].into_iter().collect(),
    ),
  }
}

fn expected(c: &Contents) -> BTreeMap<String, Value> {
  let sch = schema_s3(true);
  expected_contents(&sch, c, &|id: &str, v: &str| version_doc(id, v))
}

/// Sequential reference: apply `order` (thread ids, each consuming that thread's next call) to the
/// per-handle-queue model. Returns committed states after each writer-lock call and the final one.
fn model_run(spec: &Spec, order: &[usize]) -> (Vec<Contents>, Contents) {
  let (_, base) = base_history(spec.base);
  let mut committed = base;
  let mut log: Vec<(bool, String, String)> = Vec::new(); // (is_add, id, ver)
  let n = spec.programs.len();
  let mut queues: Vec<Option<Vec<(bool, String, String)>>> = vec![None; n];
  let mut pc = vec![0usize; n];
  let mut states = Vec::new();
  for &t in order {
    // skip reader calls: they do not change state
    while pc[t] < spec.programs[t].len() && !spec.programs[t][pc[t]].takes_writer_lock() {
      pc[t] += 1;
    }
    if pc[t] >= spec.programs[t].len() {
      continue;
    }
    let call = &spec.programs[t][pc[t]];
    pc[t] += 1;
    match call {
      Call::New => queues[t] = Some(log.clone()),
      Call::Add(i, v) => {
        log.push((true, i.clone(), v.clone()));
        queues[t].as_mut().unwrap().push((true, i.clone(), v.clone()));
      }
      Call::Del(i) => {
        log.push((false, i.clone(), String::new()));
        queues[t].as_mut().unwrap().push((false, i.clone(), String::new()));
      }
      Call::Commit => {
        let q = queues[t].as_mut().unwrap();
        if !q.is_empty() {
          for (add, i, v) in q.drain(..) {
            if add {
              committed.insert(i, v);
            } else {
              committed.remove(&i);
            }
          }
          log.clear();
        }
      }
      Call::Rollback => {
        queues[t].as_mut().unwrap().clear();
        log.clear();
      }
      Call::Compact => {}
      _ => {}
    }
    states.push(committed.clone());
  }
  (states, committed)
}

#[derive(Default, Serialize, Deserialize)]
pub struct WorkerOut {
  pub spec: String,
  pub executions: u64,
  pub bound_completed: Option<usize>,
  pub capped: bool,
  pub max_choice_points: usize,
  pub schedules_with_preemption: u64,
  pub outcomes: BTreeSet<String>,
  pub violations: Vec<(Option<String>, String, Value)>,
  pub machinery: Option<String>,
  pub sample: Option<Value>,
}

struct ThreadLog {
  results: Vec<CallResult>,
}

/// One controlled execution of `spec` under choice `prefix`.
fn run_one(spec: &Spec, prefix: &[usize], out: &mut WorkerOut) -> Option<Vec<ChoicePoint>> {
  let scratch = Scratch::new("sched");
  let root = scratch.sub("idx");
  let sch = schema_s3(true);
  let idx = Arc::new(Index::create(&root, sch.clone(), opts(&root, StorageType::Filesystem)).expect("create"));
  let (commits, base_contents) = base_history(spec.base);
  for c in commits {
    let mut w = idx.writer().expect("writer");
    for (id, v) in c {
      w.add_document(&doc(&version_doc(id, v))).expect("add");
    }
    w.commit().expect("commit");
  }
  let n = spec.programs.len();
  let sched = Sched::new(n, prefix.to_vec());
  searchlite_core::verif_hooks::install(Some(Arc::new(SchedHandler(sched.clone()))));
  let logs: Vec<Arc<Mutex<ThreadLog>>> = (0..n).map(|_| Arc::new(Mutex::new(ThreadLog { results: vec![] }))).collect();
  let mut joins = Vec::new();
  for t in 0..n {
    let prog = spec.programs[t].clone();
    let idx = idx.clone();
    let sched = sched.clone();
    let log = logs[t].clone();
    joins.push(std::thread::spawn(move || {
      sched.register(t);
      let _guard = FinishGuard { sched: sched.clone(), id: t };
      let mut writer: Option<IndexWriter> = None;
      let mut reader: Option<IndexReader> = None;
      for call in prog {
        let r = vcore::catch(|| -> anyhow::Result<Option<BTreeMap<String, Value>>> {
          match &call {
            Call::New => {
              writer = Some(idx.writer()?);
              Ok(None)
            }
            Call::Add(i, v) => {
              writer.as_mut().unwrap().add_document(&doc(&version_doc(i, v)))?;
              Ok(None)
            }
            Call::Del(i) => {
              writer.as_mut().unwrap().delete_document(i)?;
              Ok(None)
            }
            Call::Commit => {
              writer.as_mut().unwrap().commit()?;
              Ok(None)
            }
            Call::Rollback => {
              writer.as_mut().unwrap().rollback()?;
              Ok(None)
            }
            Call::Compact => {
              idx.compact()?;
              Ok(None)
            }
            Call::ReaderOpen => {
              reader = Some(idx.reader()?);
              Ok(None)
            }
            Call::Search => match reader.as_ref() {
              Some(r) => Ok(Some(contents_of(r)?)),
              None => anyhow::bail!("no reader (open failed earlier)"),
            },
          }
        });
        let cr = match r {
          Ok(Ok(c)) => CallResult { ok: true, err: None, contents: c },
          Ok(Err(e)) => CallResult { ok: false, err: Some(format!("{e:#}")), contents: None },
          Err(p) => CallResult { ok: false, err: Some(format!("PANIC: {p}")), contents: None },
        };
        log.lock().results.push(cr);
      }
      // the writer's Drop syncs the WAL without taking the writer lock: do it inside the
      // controlled section so that it is part of the schedule
      drop(writer);
      drop(reader);
    }));
  }
  let rr = sched.drive(Duration::from_secs(10));
  if rr.lost_control {
    out.machinery = Some(format!("lost control of a thread in {} prefix {:?}", spec_name(spec), prefix));
    searchlite_core::verif_hooks::install(None);
    return None;
  }
  let case = |extra: Value| json!({"engine": "schedmc", "spec": spec, "prefix": rr.trace.iter().map(|c| c.chosen).collect::<Vec<_>>(), "extra": extra});
  if rr.deadlock {
    searchlite_core::verif_hooks::install(None);
    let at: Vec<String> = rr.trace.iter().rev().take(3).map(|c| c.at.clone()).collect();
    out.violations.push((None, format!("DEADLOCK in {}: no thread enabled, last decisions at {:?}", spec_name(spec), at), case(json!(null))));
    return None; // threads are parked forever; the worker stops exploring this spec
  }
  for j in joins {
    let _ = j.join();
  }
  searchlite_core::verif_hooks::install(None);
  if let Some(d) = rr.diverged {
    out.machinery = Some(format!("replay divergence in {}: {d}", spec_name(spec)));
    return None;
  }
  // ---- observations
  let results: Vec<Vec<CallResult>> = logs.iter().map(|l| l.lock().results.clone()).collect();
  let final_same = contents(&idx);
  let final_reopen = fs_open(&root).and_then(|i| contents(&i));
  let sched_str = || rr.trace.iter().map(|c| format!("{}->t{}", c.at, c.enabled[c.chosen])).collect::<Vec<_>>().join(" ");
  // every call must succeed (the model has no failing calls)
  for (t, rs) in results.iter().enumerate() {
    for (k, r) in rs.iter().enumerate() {
      if !r.ok {
        let call = &spec.programs[t][k];
        let is_reader = matches!(call, Call::ReaderOpen | Call::Search);
        let sig = if is_reader && matches!(call, Call::ReaderOpen) && spec.programs.iter().any(|p| p.contains(&Call::Compact)) {
          Some("C06-reader-open-vs-compaction-cleanup".to_string())
        } else {
          None
        };
        out.violations.push((
          sig,
          format!("{}: thread {t} call {} failed: {} ; schedule: {}", spec_name(spec), call.short(), r.err.clone().unwrap_or_default(), sched_str()),
          case(json!({"thread": t, "call": k})),
        ));
        return Some(rr.trace);
      }
    }
  }
  let (final_same, final_reopen) = match (final_same, final_reopen) {
    (Ok(a), Ok(b)) => (a, b),
    (a, b) => {
      out.violations.push((None, format!("{}: index unreadable after the run: same-index {:?} reopen {:?}; schedule: {}", spec_name(spec), a.err().map(|e| e.to_string()), b.err().map(|e| e.to_string()), sched_str()), case(json!(null))));
      return Some(rr.trace);
    }
  };
  // serial order suggested by the order in which calls passed the writer-lock probe
  let lock_order: Vec<usize> = rr.lock_order.iter().filter(|(_, n)| *n == "writer_lock").map(|(t, _)| *t).collect();
  let total_writer_calls: usize = spec.programs.iter().map(|p| p.iter().filter(|c| c.takes_writer_lock()).count()).sum();
  let mut explained = false;
  let mut commit_states: Vec<Contents> = vec![base_contents.clone()];
  if lock_order.len() == total_writer_calls {
    let (states, fin) = model_run(spec, &lock_order);
    if expected(&fin) == final_same && final_same == final_reopen {
      explained = true;
      commit_states.extend(states);
    }
  }
  if !explained {
    // brute force: any interleaving respecting per-thread order
    let counts: Vec<usize> = spec.programs.iter().map(|p| p.iter().filter(|c| c.takes_writer_lock()).count()).collect();
    let mut found = None;
    let mut cur = Vec::new();
    fn rec(counts: &[usize], used: &mut Vec<usize>, cur: &mut Vec<usize>, f: &mut dyn FnMut(&[usize]) -> bool) -> bool {
      if used.iter().zip(counts).all(|(u, c)| u == c) {
        return f(cur);
      }
      for t in 0..counts.len() {
        if used[t] < counts[t] {
          used[t] += 1;
          cur.push(t);
          if rec(counts, used, cur, f) {
            return true;
          }
          cur.pop();
          used[t] -= 1;
        }
      }
      false
    }
    let mut used = vec![0; counts.len()];
    rec(&counts, &mut used, &mut cur, &mut |o: &[usize]| {
      let (states, fin) = model_run(spec, o);
      if expected(&fin) == final_same {
        found = Some(states);
        true
      } else {
        false
      }
    });
    match found {
      Some(states) if final_same == final_reopen => {
        commit_states.extend(states);
      }
      _ => {
        out.violations.push((
          None,
          format!(
            "{}: no serial order of the calls explains the outcome: final contents {} (after reopen {}); lock order {:?}; schedule: {}",
            spec_name(spec),
            serde_json::to_string(&final_same).unwrap(),
            serde_json::to_string(&final_reopen).unwrap(),
            lock_order,
            sched_str()
          ),
          case(json!(null)),
        ));
        return Some(rr.trace);
      }
    }
  }
  out.outcomes.insert(serde_json::to_string(&final_same).unwrap());
  // ---- C06: reader observations
  let allowed: Vec<BTreeMap<String, Value>> = commit_states.iter().map(expected).collect();
  for (t, rs) in results.iter().enumerate() {
    let mut first: Option<&BTreeMap<String, Value>> = None;
    for (k, r) in rs.iter().enumerate() {
      if let Some(c) = &r.contents {
        if !allowed.contains(c) {
          out.violations.push((
            None,
            format!("{}: reader thread {t} search #{k} returned {} which is not one committed state; schedule: {}", spec_name(spec), serde_json::to_string(c).unwrap(), sched_str()),
            case(json!({"thread": t, "call": k})),
          ));
          return Some(rr.trace);
        }
        match first {
          None => first = Some(c),
          Some(f) if f != c => {
            out.violations.push((
              None,
              format!("{}: reader thread {t}: two searches on the same reader differ: {} vs {}; schedule: {}", spec_name(spec), serde_json::to_string(f).unwrap(), serde_json::to_string(c).unwrap(), sched_str()),
              case(json!({"thread": t, "call": k})),
            ));
            return Some(rr.trace);
          }
          _ => {}
        }
        out.outcomes.insert(format!("r{t}:{}", serde_json::to_string(c).unwrap()));
      }
    }
  }
  if out.sample.is_none() && rr.trace.iter().any(|c| c.current_enabled && c.chosen != 0) {
    out.sample = Some(json!({"spec": spec_name(spec), "schedule": sched_str(), "final": final_same.keys().collect::<Vec<_>>() }));
  }
  Some(rr.trace)
}

pub fn worker(spec_json: &str) -> i32 {
  let spec: Spec = serde_json::from_str(spec_json).expect("spec json");
  let mut out = WorkerOut { spec: spec_name(&spec), ..Default::default() };
  let deadline = Instant::now() + Duration::from_secs_f64(spec.budget_s);
  let mut preempting = 0u64;
  let mut counted: HashSet<Vec<usize>> = HashSet::new();
  let stats = {
    let out_ref = &mut out;
    let mut run = |prefix: &[usize], _bound: usize| -> Option<Vec<ChoicePoint>> {
      if !out_ref.violations.is_empty() || out_ref.machinery.is_some() {
        return None;
      }
      let t = run_one(&spec, prefix, out_ref)?;
      let full: Vec<usize> = t.iter().map(|c| c.chosen).collect();
      if counted.insert(full) && t.iter().any(|c| c.current_enabled && c.chosen != 0) {
        preempting += 1;
      }
      Some(t)
    };
    explore(spec.max_bound, spec.max_execs, deadline, &mut run)
  };
  out.executions = stats.executions;
  out.bound_completed = stats.bound_completed;
  out.capped = stats.capped;
  out.max_choice_points = stats.max_choice_points;
  out.schedules_with_preemption = preempting;
  println!("WORKER-RESULT {}", serde_json::to_string(&out).unwrap());
  let _ = std::io::stdout().flush();
  // parked threads of a deadlocked execution would keep the process alive
  vcore::world::cleanup_scratch_root();
  std::process::exit(0);
}

fn writer_programs() -> Vec<Vec<Call>> {
  let a = |i: &str, v: &str| Call::Add(i.into(), v.into());
  vec![
    vec![Call::New, a("A", "1"), Call::Commit],
    vec![Call::New, a("A", "2"), Call::Del("B".into()), Call::Commit],
    vec![Call::New, Call::Del("A".into()), Call::Commit],
    vec![Call::New, a("B", "2"), Call::Rollback],
    vec![Call::New, a("A", "2"), Call::Commit, a("B", "1"), Call::Commit],
    vec![Call::Compact],
  ]
}

fn specs_c05(quick: bool) -> Vec<Spec> {
  let progs = writer_programs();
  let mut out = Vec::new();
  let bases: Vec<usize> = vec![0, 1, 2];
  // all multisets of 2 programs
  for i in 0..progs.len() {
    for j in i..progs.len() {
      for &b in &bases {
        if b == 0 && (i == 5 || j == 5) {
          continue; // compaction of an empty index is a no-op
        }
        out.push(Spec { prop: "C05".into(), base: b, programs: vec![progs[i].clone(), progs[j].clone()], max_bound: if quick { 2 } else { 6 }, max_execs: if quick { 400 } else { 20000 }, budget_s: if quick { 25.0 } else { 600.0 } });
      }
    }
  }
  if !quick {
    // 3 threads (<= 10 calls), bound 3; 4 threads with the short programs
    for i in 0..progs.len() {
      for j in i..progs.len() {
        for k in j..progs.len() {
          let n: usize = progs[i].len() + progs[j].len() + progs[k].len();
          if n > 10 {
            continue;
          }
          out.push(Spec { prop: "C05".into(), base: 2, programs: vec![progs[i].clone(), progs[j].clone(), progs[k].clone()], max_bound: 3, max_execs: 20000, budget_s: 600.0 });
        }
      }
    }
    out.push(Spec { prop: "C05".into(), base: 2, programs: vec![progs[0].clone(), progs[2].clone(), progs[3].clone(), progs[5].clone()], max_bound: 2, max_execs: 20000, budget_s: 600.0 });
  } else {
    out.push(Spec { prop: "C05".into(), base: 2, programs: vec![progs[0].clone(), progs[2].clone(), progs[5].clone()], max_bound: 1, max_execs: 300, budget_s: 25.0 });
  }
  out
}

fn specs_c06(quick: bool) -> Vec<Spec> {
  let a = |i: &str, v: &str| Call::Add(i.into(), v.into());
  let r = vec![Call::ReaderOpen, Call::Search, Call::Search];
  let w1 = vec![Call::New, a("B", "2"), Call::Commit];
  let w2 = vec![Call::New, Call::Del("A".into()), Call::Commit];
  let k = vec![Call::Compact];
  let mut sets: Vec<Vec<Vec<Call>>> = vec![
    vec![r.clone(), w1.clone()],
    vec![r.clone(), w2.clone()],
    vec![r.clone(), k.clone()],
    vec![r.clone(), w1.clone(), k.clone()],
    vec![r.clone(), r.clone(), k.clone()],
  ];
  if !quick {
    sets.push(vec![r.clone(), w2.clone(), k.clone()]);
    sets.push(vec![r.clone(), w1.clone(), w2.clone()]);
    sets.push(vec![r.clone(), r.clone(), w1.clone(), k.clone()]);
  }
  let mut out = Vec::new();
  for s in sets {
    for b in [1usize, 2] {
      if b == 1 && s.iter().any(|p| p.contains(&Call::Compact)) && !s.iter().any(|p| p.contains(&Call::Commit)) {
        continue; // compaction of one segment is a no-op
      }
      out.push(Spec { prop: "C06".into(), base: b, programs: s.clone(), max_bound: if quick { 2 } else { 4 }, max_execs: if quick { 500 } else { 30000 }, budget_s: if quick { 25.0 } else { 900.0 } });
    }
  }
  out
}

fn run_worker(spec: &Spec) -> WorkerOut {
  let exe = std::env::current_exe().expect("current exe");
  let outp = std::process::Command::new(exe)
    .arg("SCHED-WORKER")
    .arg("quick")
    .arg(serde_json::to_string(spec).unwrap())
    .output()
    .expect("spawn worker");
  let so = String::from_utf8_lossy(&outp.stdout);
  for line in so.lines() {
    if let Some(j) = line.strip_prefix("WORKER-RESULT ") {
      return serde_json::from_str(j).expect("worker json");
    }
  }
  WorkerOut { spec: spec_name(spec), machinery: Some(format!("worker produced no result (status {:?}): {}", outp.status, String::from_utf8_lossy(&outp.stderr).chars().take(400).collect::<String>())), ..Default::default() }
}

pub fn run(ctx: &Ctx, prop: &str) -> i32 {
  let mut rep = Reporter::new(prop, ctx.tier, "model_checking");
  let quick = ctx.tier.is_quick();
  if let Some(path) = &ctx.replay {
    rep.set_replaying(true);
    let v: Value = serde_json::from_slice(&std::fs::read(path).expect("replay file")).expect("json");
    let spec: Spec = serde_json::from_value(v["case"]["spec"].clone()).expect("spec");
    let prefix: Vec<usize> = serde_json::from_value(v["case"]["prefix"].clone()).expect("prefix");
    let mut o1 = WorkerOut::default();
    let mut o2 = WorkerOut::default();
    let _ = run_one(&spec, &prefix, &mut o1);
    if o1.violations.iter().any(|v| v.1.starts_with("DEADLOCK")) {
      println!("VIOLATION property={prop} replay={path}\n  what: {}", o1.violations[0].1);
      vcore::world::cleanup_scratch_root();
      std::process::exit(1);
    }
    let _ = run_one(&spec, &prefix, &mut o2);
    if o1.violations.is_empty() != o2.violations.is_empty() {
      vcore::ev::machinery_failure("NONDETERMINISM on replay: the same schedule gave different verdicts");
    }
    if let Some(m) = o1.machinery {
      vcore::ev::machinery_failure(&m);
    }
    return match o1.violations.first() {
      Some(v) => {
        println!("VIOLATION property={prop} replay={path}\n  what: {}", v.1);
        1
      }
      None => {
        println!("replay: no violation");
        0
      }
    };
  }
  let specs = if prop == "C05" { specs_c05(quick) } else { specs_c06(quick) };
  let outs: Vec<WorkerOut> = specs.par_iter().map(run_worker).collect();
  let mut executions = 0u64;
  let mut choice_points_max = 0usize;
  let mut preempting = 0u64;
  let mut outcomes: HashSet<String> = HashSet::new();
  let mut per_spec = Vec::new();
  let mut all_complete = true;
  for o in outs {
    if let Some(m) = &o.machinery {
      vcore::ev::machinery_failure(m);
    }
    executions += o.executions;
    rep.add_evals(o.executions);
    choice_points_max = choice_points_max.max(o.max_choice_points);
    preempting += o.schedules_with_preemption;
    outcomes.extend(o.outcomes.iter().cloned());
    if o.capped {
      all_complete = false;
    }
    per_spec.push(json!({"spec": o.spec, "executions": o.executions, "preemption_bound_completed": o.bound_completed, "capped": o.capped, "distinct_outcomes": o.outcomes.len()}));
    if let Some(s) = o.sample {
      rep.sample(s);
    }
    for (sig, what, case) in o.violations {
      rep.fail(sig.as_deref(), &what, case);
    }
  }
  println!("{prop}: program sets={} executions={} schedules_with_preemption={} distinct_outcomes={}", specs.len(), executions, preempting, outcomes.len());
  if outcomes.len() < 2 && rep.violations() == 0 && rep.known_cases() == 0 {
    vcore::ev::machinery_failure("schedmc vacuous: fewer than 2 distinct outcomes");
  }
  let cov = vcore::cov! {
    "states" => executions,
    "transitions" => executions * (choice_points_max as u64).max(1),
    "traces_validated_against_impl" => executions,
    "distinct_nontrivial" => preempting,
    "rule" => "each program set (threads with their own writer handle / reader, plus compaction) is executed on the real code under a baton scheduler: a thread yields at every guarded hook point (lock probes before writer_lock / manifest locks, commit, compaction and reader-open stages) and the explorer runs every schedule with 0,1,2.. preemptions (iterative preemption bounding, stateless DFS over choice prefixes). 'states' counts complete distinct schedules executed; a schedule is non-trivial when it contains at least one preemption. Oracle: every call returns Ok; final contents (same Index and reopened) equal the per-handle-queue model run in the order the calls passed the writer-lock probe, else in any serial order (brute force); every reader result equals one committed state of that serial order and repeated searches on one reader agree; no deadlock.",
    "program_sets" => per_spec,
    "max_choice_points_per_schedule" => choice_points_max,
    "exhaustive" => all_complete,
    "exhaustive_note" => "exhaustive up to the per-set preemption bound reported in program_sets (all schedules when the bound exceeds the number of choice points)",
    "distinct_observed_outcomes" => outcomes.len(),
  };
  rep.finish(
    cov,
    vec![
      "scheduling points are the guarded hooks (cfg searchlite_verif); executions are sequentially consistent".into(),
      "lock probes declare no ownership: deleting a real lock() makes the probe succeed and exposes the race".into(),
    ],
  )
}
