//! C15 — every accepted document can be committed.
//! Engine: inputmc docs — per schema, every base document of a small alphabet and every result of
//! one or two schema-agnostic mutation operators; each mutant is queued on a fresh in-memory index
//! and committed. Oracle: (a) add_document Ok => commit Ok, and after a failed commit a fresh
//! writer handle can still commit a valid document; (b) an independent schema-validity predicate
//! says invalid => add_document Err; (c) a rejected document leaves the writer usable and never
//! shows up in the committed contents.

use std::collections::{BTreeMap, BTreeSet, HashSet};
use std::sync::atomic::{AtomicBool, AtomicU64, Ordering};

use parking_lot::Mutex;
use rayon::prelude::*;
use serde_json::{json, Map, Value};

use vcore::ev::Reporter;
use vcore::world::*;

use crate::Ctx;

// ---------------------------------------------------------------------------------------------
// Schemas and base documents

fn schema_flat() -> Value {
  json!({"doc_id_field": "_id",
    "text_fields": [{"name": "body", "analyzer": "default", "stored": true, "indexed": true}],
    "keyword_fields": [{"name": "kw", "stored": true, "indexed": true, "fast": true},
                       {"name": "nk", "stored": true, "indexed": true, "fast": true, "nullable": true}],
    "numeric_fields": [{"name": "n", "i64": true, "fast": true, "stored": true},
                       {"name": "f", "i64": false, "fast": true, "stored": true}]})
}

fn schema_nested() -> Value {
  json!({"doc_id_field": "_id",
    "text_fields": [{"name": "body", "analyzer": "default", "stored": true, "indexed": true}],
    "keyword_fields": [], "numeric_fields": [],
    "nested_fields": [
      {"name": "c", "nullable": false, "fields": [
        {"type": "keyword", "name": "a", "stored": true, "indexed": true, "fast": true},
        {"type": "numeric", "name": "v", "i64": true, "fast": true, "stored": true, "nullable": true},
        {"type": "text", "name": "x", "analyzer": "default", "stored": true, "indexed": true, "nullable": true},
        {"type": "object", "name": "r", "nullable": true, "fields": [
          {"type": "keyword", "name": "t", "stored": true, "indexed": true, "fast": true},
          {"type": "numeric", "name": "s", "i64": false, "fast": true, "stored": true, "nullable": true}]}]},
      {"name": "m", "nullable": true, "fields": [
        {"type": "keyword", "name": "k", "stored": true, "indexed": true, "fast": true}]}]})
}

/// (schema name, schema, base documents simplest first). Every base document is plainly valid per
/// README "Schema and documents" and must be accepted.
fn universes() -> Vec<(&'static str, Value, Vec<Value>)> {
  vec![
    (
      "flat(text,kw,nullable kw,i64,f64)",
      schema_flat(),
      vec![
        json!({"_id": "A"}),
        json!({"_id": "A", "body": "a b", "kw": "x", "n": 1, "f": 0.5}),
        json!({"_id": "A", "body": ["a", "b"], "kw": ["x", "y"], "n": [1, 2], "f": [0.5, 2.5], "nk": null}),
      ],
    ),
    (
      "nested(c{a,v?,x?,r?{t,s?}},m?{k})",
      schema_nested(),
      vec![
        json!({"_id": "A", "c": {"a": "p"}}),
        json!({"_id": "A", "body": "a", "c": [{"a": "p", "v": null, "r": null}], "m": null}),
        json!({"_id": "A", "c": [{"a": "p", "v": 1, "x": "hello", "r": [{"t": "u", "s": 0.5}]}, {"a": "q", "r": {"t": "w"}}], "m": [{"k": "z"}]}),
      ],
    ),
  ]
}

// ---------------------------------------------------------------------------------------------
// Mutation operators (schema-agnostic: they only look at the JSON shape)

fn type_alphabet() -> Vec<(&'static str, Value)> {
  vec![
    ("null", Value::Null),
    ("bool", json!(true)),
    ("int", json!(7)),
    ("float", json!(1.5)),
    ("string", json!("s")),
    ("mixed-array", json!(["s", 7])),
    ("float-array", json!([1.5])),
    ("array-of-arrays", json!([["s"]])),
    ("empty-array-in-array", json!([[]])),
    ("object", json!({"zz": 1})),
    ("empty-object", json!({})),
  ]
}

fn get_mut<'a>(root: &'a mut Value, path: &[PathSeg]) -> &'a mut Value {
  let mut cur = root;
  for p in path {
    cur = match p {
      PathSeg::Key(k) => cur.get_mut(k.as_str()).unwrap(),
      PathSeg::Idx(i) => cur.get_mut(*i).unwrap(),
    };
  }
  cur
}

#[derive(Clone, Debug)]
enum PathSeg {
  Key(String),
  Idx(usize),
}

fn path_str(path: &[PathSeg]) -> String {
  let mut s = String::new();
  for p in path {
    match p {
      PathSeg::Key(k) => {
        if !s.is_empty() {
          s.push('.');
        }
        s.push_str(k);
      }
      PathSeg::Idx(i) => s.push_str(&format!("[{i}]")),
    }
  }
  s
}

fn value_paths(v: &Value, cur: &mut Vec<PathSeg>, out: &mut Vec<Vec<PathSeg>>) {
  match v {
    Value::Object(m) => {
      for (k, c) in m {
        cur.push(PathSeg::Key(k.clone()));
        out.push(cur.clone());
        value_paths(c, cur, out);
        cur.pop();
      }
    }
    Value::Array(a) => {
      for (i, c) in a.iter().enumerate() {
        cur.push(PathSeg::Idx(i));
        out.push(cur.clone());
        value_paths(c, cur, out);
        cur.pop();
      }
    }
    _ => {}
  }
}

/// Every single-step mutant of `doc` with a description of the operator.
fn mutants(doc: &Value) -> Vec<(String, Value)> {
  let mut out: Vec<(String, Value)> = Vec::new();
  let obj = doc.as_object().unwrap();
  // id operators
  if obj.contains_key("_id") {
    let mut d = doc.clone();
    d.as_object_mut().unwrap().remove("_id");
    out.push(("drop id".into(), d));
    for (name, v) in [("blank id", json!("")), ("whitespace id", json!("  ")), ("numeric id", json!(7)), ("null id", Value::Null), ("array id", json!(["A"])), ("object id", json!({"x": 1}))] {
      let mut d = doc.clone();
      d["_id"] = v;
      out.push((name.into(), d));
    }
  }
  // unknown top-level field
  for (name, v) in [("add unknown top-level field zz:\"q\"", json!("q")), ("add unknown top-level field zz:{..}", json!({"a": 1}))] {
    if !obj.contains_key("zz") {
      let mut d = doc.clone();
      d["zz"] = v;
      out.push((name.into(), d));
    }
  }
  // per value location
  let mut paths = Vec::new();
  value_paths(doc, &mut Vec::new(), &mut paths);
  for path in paths {
    if matches!(path.first(), Some(PathSeg::Key(k)) if k == "_id") {
      continue;
    }
    let ps = path_str(&path);
    let orig = {
      let mut d = doc.clone();
      get_mut(&mut d, &path).clone()
    };
    for (tn, tv) in type_alphabet() {
      if tv == orig {
        continue;
      }
      let mut d = doc.clone();
      *get_mut(&mut d, &path) = tv;
      out.push((format!("replace {ps} by {tn}"), d));
    }
    {
      let mut d = doc.clone();
      let slot = get_mut(&mut d, &path);
      *slot = json!([orig.clone()]);
      out.push((format!("wrap {ps} in an array"), d));
    }
    match &orig {
      Value::Object(m) => {
        for k in m.keys() {
          let mut d = doc.clone();
          get_mut(&mut d, &path).as_object_mut().unwrap().remove(k);
          out.push((format!("drop property {k} of {ps}"), d));
        }
        if !m.contains_key("zz") {
          let mut d = doc.clone();
          get_mut(&mut d, &path).as_object_mut().unwrap().insert("zz".into(), json!("q"));
          out.push((format!("add unknown property zz to {ps}"), d));
        }
      }
      Value::Array(a) => {
        for (name, v) in [("string", json!("s")), ("int", json!(7)), ("float", json!(1.5)), ("null", Value::Null), ("empty array", json!([])), ("empty object", json!({}))] {
          let mut d = doc.clone();
          get_mut(&mut d, &path).as_array_mut().unwrap().push(v);
          out.push((format!("append {name} to array {ps}"), d));
        }
        if let Some(first) = a.first() {
          let mut d = doc.clone();
          get_mut(&mut d, &path).as_array_mut().unwrap().push(json!([first.clone()]));
          out.push((format!("append [first element] to array {ps}"), d));
        }
      }
      _ => {}
    }
  }
  out
}

/// Top-level keys derived from the schema's own field paths (an accepted document is owed a
/// successful commit whatever its keys look like, and look-alikes of declared paths are where a
/// lenient path lookup would accept what indexing later refuses): every resolved nested leaf path
/// (`c.a`), every nested object path (`c.r`), each of those and every top-level field / nested
/// field / id name extended by one segment (`c.a.raw`, `c.r.raw`, `kw.raw`, `c.raw`, `_id.raw`),
/// and leaf paths extended by two segments (`c.a.raw.x`).
fn schema_derived_keys(schema: &Value) -> Vec<String> {
  fn walk(n: &Value, prefix: &str, leaves: &mut Vec<String>, objects: &mut Vec<String>) {
    for p in n["fields"].as_array().cloned().unwrap_or_default() {
      let path = format!("{prefix}.{}", p["name"].as_str().unwrap_or(""));
      if p["type"] == json!("object") {
        objects.push(path.clone());
        walk(&p, &path, leaves, objects);
      } else {
        leaves.push(path);
      }
    }
  }
  let mut leaves = Vec::new();
  let mut objects = Vec::new();
  let mut tops: Vec<String> = vec!["_id".to_string()];
  for list in ["text_fields", "keyword_fields", "numeric_fields"] {
    for f in schema[list].as_array().cloned().unwrap_or_default() {
      tops.push(f["name"].as_str().unwrap_or("").to_string());
    }
  }
  for n in schema["nested_fields"].as_array().cloned().unwrap_or_default() {
    let name = n["name"].as_str().unwrap_or("").to_string();
    walk(&n, &name, &mut leaves, &mut objects);
    tops.push(name);
  }
  let mut keys: Vec<String> = Vec::new();
  keys.extend(leaves.iter().cloned());
  keys.extend(objects.iter().cloned());
  for k in leaves.iter().chain(objects.iter()).chain(tops.iter()) {
    keys.push(format!("{k}.raw"));
  }
  for k in &leaves {
    keys.push(format!("{k}.raw.x"));
  }
  for k in &tops {
    keys.push(format!("{k}.nope"));
  }
  let mut seen = HashSet::new();
  keys.retain(|k| seen.insert(k.clone()));
  keys
}

/// Mutants that add one schema-derived top-level key with a value of each JSON type.
fn schema_key_mutants(schema: &Value, doc: &Value) -> Vec<(String, Value)> {
  let values = [
    ("string", json!("s")),
    ("int", json!(7)),
    ("float", json!(1.5)),
    ("bool", json!(true)),
    ("null", Value::Null),
    ("string array", json!(["s"])),
    ("int array", json!([7])),
    ("object", json!({"a": "p"})),
    ("array of objects", json!([{"a": "p"}])),
  ];
  let obj = doc.as_object().unwrap();
  let mut out = Vec::new();
  for k in schema_derived_keys(schema) {
    if obj.contains_key(&k) {
      continue;
    }
    for (vn, v) in &values {
      let mut d = doc.clone();
      d[k.as_str()] = v.clone();
      out.push((format!("add schema-derived top-level key {k:?} = {vn}"), d));
    }
  }
  out
}

// ---------------------------------------------------------------------------------------------
// Independent schema-validity predicate (written from README / index-schema.json, not from the
// validation code). It reports *reasons* a document is plainly invalid; inputs on which the
// documentation is silent set `unspecified` and demand nothing.

#[derive(Default, Debug)]
struct Verdict {
  reasons: BTreeSet<String>,
  unspecified: bool,
}

impl Verdict {
  fn bad(&mut self, tag: &str) {
    self.reasons.insert(tag.to_string());
  }
}

#[derive(Clone, Copy, PartialEq)]
enum Kind {
  Str,
  I64,
  F64,
}

fn leaf_kind(def: &Value, class: &str) -> Kind {
  match class {
    "numeric" => {
      if def["i64"].as_bool().unwrap_or(false) {
        Kind::I64
      } else {
        Kind::F64
      }
    }
    _ => Kind::Str,
  }
}

fn scalar_ok(kind: Kind, v: &Value) -> Result<(), &'static str> {
  match (kind, v) {
    (Kind::Str, Value::String(_)) => Ok(()),
    (Kind::I64, Value::Number(n)) => {
      if n.is_i64() {
        Ok(())
      } else if n.is_f64() {
        Err("float-in-i64")
      } else {
        Err("unspecified")
      }
    }
    (Kind::F64, Value::Number(_)) => Ok(()),
    _ => Err("wrong-type"),
  }
}

/// `ctx` is "" for top-level fields and "nested-leaf-" for properties of nested objects.
fn check_leaf(kind: Kind, nullable: bool, v: &Value, ctx: &str, out: &mut Verdict) {
  match v {
    Value::Null => {
      if !nullable {
        out.bad(&format!("{ctx}null-non-nullable"));
      }
    }
    Value::Array(items) => {
      for it in items {
        match it {
          Value::Null => {
            if nullable {
              out.unspecified = true;
            } else {
              out.bad(&format!("{ctx}wrong-element-type"));
            }
          }
          Value::Array(_) => out.bad(&format!("{ctx}array-of-arrays")),
          Value::Object(_) | Value::Bool(_) => out.bad(&format!("{ctx}wrong-element-type")),
          _ => match scalar_ok(kind, it) {
            Ok(()) => {}
            Err("unspecified") => out.unspecified = true,
            Err("float-in-i64") => out.bad(&format!("{ctx}float-in-i64")),
            Err(_) => out.bad(&format!("{ctx}wrong-element-type")),
          },
        }
      }
    }
    Value::Object(_) | Value::Bool(_) => out.bad(&format!("{ctx}wrong-type")),
    _ => match scalar_ok(kind, v) {
      Ok(()) => {}
      Err("unspecified") => out.unspecified = true,
      Err("float-in-i64") => out.bad(&format!("{ctx}float-in-i64")),
      Err(_) => out.bad(&format!("{ctx}wrong-type")),
    },
  }
}

fn check_nested(def: &Value, v: &Value, out: &mut Verdict) {
  let nullable = def["nullable"].as_bool().unwrap_or(false);
  match v {
    Value::Null => {
      if !nullable {
        out.bad("nested-null-non-nullable");
      }
    }
    Value::Object(m) => check_nested_object(def, m, out),
    Value::Array(items) => {
      for it in items {
        match it {
          Value::Object(m) => check_nested_object(def, m, out),
          Value::Null => {
            if nullable {
              out.unspecified = true;
            } else {
              out.bad("nested-null-non-nullable");
            }
          }
          Value::Array(_) => out.bad("nested-array-of-arrays"),
          _ => out.bad("nested-scalar-element"),
        }
      }
    }
    _ => out.bad("nested-scalar"),
  }
}

fn check_nested_object(def: &Value, m: &Map<String, Value>, out: &mut Verdict) {
  let props = def["fields"].as_array().cloned().unwrap_or_default();
  for (k, v) in m {
    match props.iter().find(|p| p["name"] == json!(k)) {
      None => out.bad("unknown-nested-property"),
      Some(p) => {
        let class = p["type"].as_str().unwrap_or("");
        if class == "object" {
          check_nested(p, v, out);
        } else {
          check_leaf(leaf_kind(p, class), p["nullable"].as_bool().unwrap_or(false), v, "nested-leaf-", out);
        }
      }
    }
  }
  for p in &props {
    let name = p["name"].as_str().unwrap_or("");
    if !m.contains_key(name) && !p["nullable"].as_bool().unwrap_or(false) {
      out.bad("missing-required-nested-property");
    }
  }
}

fn judge(schema: &Value, doc: &Value) -> Verdict {
  let mut out = Verdict::default();
  let obj = doc.as_object().unwrap();
  match obj.get("_id") {
    None => out.bad("id-missing"),
    Some(Value::String(s)) => {
      if s.trim().is_empty() {
        out.bad("id-blank");
      }
    }
    Some(_) => out.bad("id-non-string"),
  }
  let find = |list: &str, name: &str| -> Option<Value> { schema[list].as_array().and_then(|a| a.iter().find(|f| f["name"] == json!(name)).cloned()) };
  for (k, v) in obj {
    if k == "_id" {
      continue;
    }
    if let Some(f) = find("text_fields", k).or_else(|| find("keyword_fields", k)) {
      check_leaf(Kind::Str, f["nullable"].as_bool().unwrap_or(false), v, "", &mut out);
    } else if let Some(f) = find("numeric_fields", k) {
      check_leaf(leaf_kind(&f, "numeric"), f["nullable"].as_bool().unwrap_or(false), v, "", &mut out);
    } else if let Some(n) = find("nested_fields", k) {
      check_nested(&n, v, &mut out);
    } else if k.contains('.') {
      out.unspecified = true;
    } else {
      out.bad("unknown-top-level-field");
    }
  }
  out
}

// ---------------------------------------------------------------------------------------------
// Running one case against the real code

#[derive(Debug, Clone, PartialEq)]
enum Outcome {
  Rejected(String),
  Committed,
  CommitFailed { err: String, blocked: Option<String> },
  Broken(String),
}

fn valid_followup() -> Value {
  json!({"_id": "V"})
}

fn run_doc(schema_json: &Value, d: &Value) -> Outcome {
  let sch = schema(schema_json.clone());
  let idx = mem_index(&sch);
  let document = doc(d);
  let mut w = match idx.writer() {
    Ok(w) => w,
    Err(e) => return Outcome::Broken(format!("writer(): {e:#}")),
  };
  let added = match vcore::catch(|| w.add_document(&document)) {
    Err(p) => return Outcome::Broken(format!("add_document panicked: {p}")),
    Ok(r) => r,
  };
  match added {
    Err(e) => {
      // a rejected document must leave the handle usable and must not be committed
      let follow = vcore::catch(|| -> anyhow::Result<BTreeMap<String, Value>> {
        w.add_document(&doc(&valid_followup()))?;
        w.commit()?;
        contents(&idx)
      });
      match follow {
        Err(p) => Outcome::Broken(format!("after the rejected add, add+commit of a valid document panicked: {p}")),
        Ok(Err(e2)) => Outcome::Broken(format!("after the rejected add ({e:#}), the same writer cannot commit a valid document: {e2:#}")),
        Ok(Ok(c)) => {
          let ids: Vec<&String> = c.keys().collect();
          if ids != vec!["V"] {
            Outcome::Broken(format!("after the rejected add, committed ids are {ids:?}, expected [\"V\"]"))
          } else {
            Outcome::Rejected(format!("{e:#}"))
          }
        }
      }
    }
    Ok(_) => {
      let committed = match vcore::catch(|| w.commit()) {
        Err(p) => return Outcome::Broken(format!("commit panicked: {p}")),
        Ok(r) => r,
      };
      match committed {
        Ok(()) => match vcore::catch(|| contents(&idx)) {
          Err(p) => Outcome::Broken(format!("match_all after the commit panicked: {p}")),
          Ok(Err(e)) => Outcome::Broken(format!("match_all after the commit failed: {e:#}")),
          Ok(Ok(c)) => {
            let want = d["_id"].as_str().unwrap_or("");
            if c.contains_key(want) {
              Outcome::Committed
            } else {
              Outcome::Broken(format!("commit returned Ok but id {want:?} is not in the committed contents {:?}", c.keys().collect::<Vec<_>>()))
            }
          }
        },
        Err(e) => {
          drop(w);
          let later = vcore::catch(|| -> anyhow::Result<()> {
            let mut w2 = idx.writer()?;
            w2.add_document(&doc(&valid_followup()))?;
            w2.commit()
          });
          let blocked = match later {
            Ok(Ok(())) => None,
            Ok(Err(e2)) => Some(format!("{e2:#}")),
            Err(p) => Some(format!("PANIC {p}")),
          };
          Outcome::CommitFailed { err: format!("{e:#}"), blocked }
        }
      }
    }
  }
}

const LAX_COMMIT: [&str; 2] = ["unknown-top-level-field", "nested-array-of-arrays"];
const LAX_SILENT: [&str; 3] = ["nested-leaf-wrong-element-type", "nested-leaf-array-of-arrays", "nested-leaf-float-in-i64"];

/// Returns (signature, what) if the case violates the property.
fn evaluate(is_base: bool, oversize: bool, verdict: &Verdict, outcome: &Outcome) -> Option<(Option<&'static str>, String)> {
  let all_lax = !verdict.reasons.is_empty() && verdict.reasons.iter().all(|r| LAX_COMMIT.contains(&r.as_str()) || LAX_SILENT.contains(&r.as_str()));
  match outcome {
    Outcome::Broken(m) => Some((None, m.clone())),
    Outcome::Rejected(e) => {
      if is_base {
        Some((None, format!("a plainly valid base document was rejected by add_document: {e}")))
      } else {
        None
      }
    }
    Outcome::Committed => {
      if verdict.reasons.is_empty() {
        return None;
      }
      let what = format!("add_document accepted (and commit stored) a document that violates the schema: {:?}", verdict.reasons);
      let sig = if verdict.reasons.iter().all(|r| LAX_SILENT.contains(&r.as_str())) {
        if verdict.reasons.iter().any(|r| r != "nested-leaf-float-in-i64") {
          Some("C15-nested-leaf-array-elements-unchecked")
        } else {
          Some("C15-nested-i64-float-accepted")
        }
      } else {
        None
      };
      Some((sig, what))
    }
    Outcome::CommitFailed { err, blocked } => {
      let tail = match blocked {
        Some(b) => format!("; a fresh writer handle then fails to commit a valid document too: {b}"),
        None => "; a fresh writer handle can still commit".to_string(),
      };
      let what = format!("add_document returned Ok but the following commit failed: {err}{tail} (schema violations per the independent predicate: {:?})", verdict.reasons);
      let sig = if oversize && verdict.reasons.is_empty() && err.contains("stored document too large") {
        Some("C15-oversized-stored-document-accepted")
      } else if all_lax && verdict.reasons.contains("unknown-top-level-field") && err.contains("unknown field") {
        Some("C15-unknown-top-level-field-accepted")
      } else if all_lax && verdict.reasons.contains("nested-array-of-arrays") && err.contains("must contain objects") {
        Some("C15-nested-array-of-arrays-accepted")
      } else {
        None
      };
      Some((sig, what))
    }
  }
}

/// Documents whose *stored form* exceeds the 32 MiB docstore cap, through different places of the
/// document: (name, schema, document). All oversized values are stored-only (not tokenized /
/// indexed), which keeps the cases cheap.
fn oversize_variants(bytes: usize) -> Vec<(&'static str, Value, Value)> {
  let blob = |n: usize| "a".repeat(n);
  let nested_schema = json!({"doc_id_field": "_id",
    "text_fields": [{"name": "title", "analyzer": "default", "stored": true, "indexed": true}],
    "keyword_fields": [], "numeric_fields": [],
    "nested_fields": [{"name": "att", "nullable": true, "fields": [
      {"type": "keyword", "name": "data", "stored": true, "indexed": false, "fast": false, "nullable": true},
      {"type": "keyword", "name": "kind", "stored": true, "indexed": true, "fast": true, "nullable": true}]}]});
  let two_fields = json!({"doc_id_field": "_id",
    "text_fields": [{"name": "blob", "analyzer": "default", "stored": true, "indexed": false},
                    {"name": "blob2", "analyzer": "default", "stored": true, "indexed": false}],
    "keyword_fields": [{"name": "kblob", "stored": true, "indexed": false, "fast": false}], "numeric_fields": []});
  let half = bytes / 2 + (1 << 20);
  vec![
    ("one stored top-level text value", schema_blob(), json!({"_id": "A", "blob": blob(bytes)})),
    ("one stored top-level keyword value", two_fields.clone(), json!({"_id": "A", "blob": "x", "kblob": blob(bytes)})),
    ("two stored top-level values that exceed the cap together", two_fields, json!({"_id": "A", "blob": blob(half), "blob2": blob(half)})),
    ("one stored property of a nested object", nested_schema.clone(), json!({"_id": "A", "title": "t", "att": {"kind": "k", "data": blob(bytes)}})),
    ("stored properties of two nested objects that exceed the cap together", nested_schema, json!({"_id": "A", "title": "t", "att": [{"kind": "k", "data": blob(half)}, {"data": blob(half)}]})),
    // 6 MiB of control characters: each is serialized as a 6-byte \\u escape (36 MiB stored form)
    ("a value whose JSON escaping exceeds the cap", schema_blob(), json!({"_id": "A", "blob": "\u{1}".repeat(6 << 20)})),
  ]
}

fn oversize_doc(bytes: usize) -> Value {
  json!({"_id": "A", "blob": "a".repeat(bytes)})
}

/// Stored-only text field, so that the oversized value is not tokenized (keeps the case cheap).
fn schema_blob() -> Value {
  json!({"doc_id_field": "_id",
    "text_fields": [{"name": "blob", "analyzer": "default", "stored": true, "indexed": false}],
    "keyword_fields": [], "numeric_fields": []})
}

fn outcome_class(o: &Outcome) -> &'static str {
  match o {
    Outcome::Rejected(_) => "rejected",
    Outcome::Committed => "committed",
    Outcome::CommitFailed { .. } => "commit-failed",
    Outcome::Broken(_) => "broken",
  }
}

pub fn run(ctx: &Ctx) -> i32 {
  let mut rep = Reporter::new("C15", ctx.tier, "exploration");
  let quick = ctx.tier.is_quick();
  if let Some(path) = &ctx.replay {
    rep.set_replaying(true);
    let v: Value = serde_json::from_slice(&std::fs::read(path).expect("replay file")).expect("json");
    let cs = &v["case"];
    let schema_json = cs["schema_json"].clone();
    let oversize = cs["oversize_bytes"].as_u64();
    let (schema_json, d) = match (oversize, cs["oversize_variant"].as_u64()) {
      (Some(n), Some(v)) => {
        let (_, sj, d) = oversize_variants(n as usize).swap_remove(v as usize);
        (sj, d)
      }
      (Some(n), None) => (schema_json, oversize_doc(n as usize)),
      _ => (schema_json, cs["doc"].clone()),
    };
    let is_base = cs["mutations"].as_array().map(|a| a.is_empty()).unwrap_or(false) && oversize.is_none();
    let verdict = judge(&schema_json, &d);
    let once = || evaluate(is_base, oversize.is_some(), &verdict, &run_doc(&schema_json, &d)).map(|e| e.1);
    let (a, b) = (once(), once());
    if a.is_some() != b.is_some() {
      vcore::ev::machinery_failure("NONDETERMINISM on replay");
    }
    return match a {
      Some(w) => {
        println!("VIOLATION property=C15 replay={path}\n  what: {w}");
        1
      }
      None => {
        println!("replay: no violation");
        0
      }
    };
  }

  struct Case {
    schema_name: &'static str,
    schema_json: std::sync::Arc<Value>,
    doc: Value,
    base: std::sync::Arc<Value>,
    mutations: Vec<String>,
  }
  let mut cases: Vec<Case> = Vec::new();
  let mut per_depth = [0u64; 3];
  for (sname, sjson, bases) in universes() {
    let sjson = std::sync::Arc::new(sjson);
    let bases: Vec<std::sync::Arc<Value>> = bases.into_iter().map(std::sync::Arc::new).collect();
    let mut seen: HashSet<String> = HashSet::new();
    let mut singles: Vec<(usize, String, Value)> = Vec::new();
    for b in &bases {
      if seen.insert(b.to_string()) {
        cases.push(Case { schema_name: sname, schema_json: sjson.clone(), doc: (**b).clone(), base: b.clone(), mutations: vec![] });
        per_depth[0] += 1;
      }
    }
    for (bi, b) in bases.iter().enumerate() {
      for (m, d) in mutants(b).into_iter().chain(schema_key_mutants(&sjson, b)) {
        if seen.insert(d.to_string()) {
          cases.push(Case { schema_name: sname, schema_json: sjson.clone(), doc: d.clone(), base: b.clone(), mutations: vec![m.clone()] });
          per_depth[1] += 1;
          singles.push((bi, m, d));
        }
      }
    }
    // quick: second-order mutants of the two simplest base documents only
    let second: Vec<Vec<(String, String, Value)>> = singles
      .par_iter()
      .map(|(bi, m1, d1)| if quick && (*bi >= 2 || m1.starts_with("add schema-derived")) { Vec::new() } else { mutants(d1).into_iter().map(|(m2, d2)| (d2.to_string(), m2, d2)).collect() })
      .collect();
    for ((bi, m1, _), list) in singles.iter().zip(second) {
      for (key, m2, d2) in list {
        if seen.insert(key) {
          cases.push(Case { schema_name: sname, schema_json: sjson.clone(), doc: d2, base: bases[*bi].clone(), mutations: vec![m1.clone(), m2] });
          per_depth[2] += 1;
        }
      }
    }
  }
  // simplest first: by number of mutations, then by serialized size
  cases.sort_by_cached_key(|c| (c.mutations.len(), c.doc.to_string().len()));

  let t_gen = rep.elapsed_s();
  let evals = AtomicU64::new(0);
  let invalid_cases = AtomicU64::new(0);
  let unspecified_cases = AtomicU64::new(0);
  let outcomes: Mutex<BTreeMap<String, u64>> = Mutex::new(BTreeMap::new());
  let reason_stats: Mutex<BTreeMap<String, (u64, u64)>> = Mutex::new(BTreeMap::new());
  let deadline = if quick { 30.0 } else { 840.0 };
  let timed_out = AtomicBool::new(false);
  // keep the report order simplest-first: evaluate in parallel, report sequentially
  let results: Vec<Option<(Option<&'static str>, String)>> = cases
    .par_iter()
    .map(|c| {
      if rep.elapsed_s() > deadline {
        timed_out.store(true, Ordering::Relaxed);
        return None;
      }
      let verdict = judge(&c.schema_json, &c.doc);
      let outcome = run_doc(&c.schema_json, &c.doc);
      evals.fetch_add(1, Ordering::Relaxed);
      if !verdict.reasons.is_empty() {
        invalid_cases.fetch_add(1, Ordering::Relaxed);
      } else if verdict.unspecified {
        unspecified_cases.fetch_add(1, Ordering::Relaxed);
      }
      *outcomes.lock().entry(outcome_class(&outcome).to_string()).or_insert(0) += 1;
      if verdict.reasons.len() == 1 {
        let mut rs = reason_stats.lock();
        let e = rs.entry(verdict.reasons.iter().next().unwrap().clone()).or_insert((0, 0));
        e.0 += 1;
        if matches!(outcome, Outcome::Rejected(_)) {
          e.1 += 1;
        }
      }
      if c.mutations.len() == 1 && !rep.sample_full() {
        rep.sample(json!({"schema": c.schema_name, "base": *c.base, "mutations": c.mutations, "doc": c.doc, "predicate_reasons": verdict.reasons, "outcome": outcome_class(&outcome)}));
      }
      evaluate(c.mutations.is_empty(), false, &verdict, &outcome)
    })
    .collect();
  // report the simplest witness of every failure class first, then the rest (simplest first)
  let mut failure_classes: BTreeMap<String, u64> = BTreeMap::new();
  let mut firsts = Vec::new();
  let mut rest = Vec::new();
  for (c, r) in cases.iter().zip(results) {
    if let Some((sig, what)) = r {
      let class = sig.map(|s| s.to_string()).unwrap_or_else(|| format!("unexplained: {}", what.chars().take(60).collect::<String>()));
      let n = failure_classes.entry(class).or_insert(0);
      *n += 1;
      if *n == 1 {
        firsts.push((c, sig, what));
      } else {
        rest.push((c, sig, what));
      }
    }
  }
  for (c, sig, what) in firsts.into_iter().chain(rest) {
    rep.fail(
      sig,
      &format!("schema {} doc {} ({}): {}", c.schema_name, c.doc, if c.mutations.is_empty() { "base document".to_string() } else { format!("base {} + {}", c.base, c.mutations.join(" + ")) }, what),
      json!({"engine": "inputmc-docs", "schema_name": c.schema_name, "schema_json": *c.schema_json, "doc": c.doc, "base": *c.base, "mutations": c.mutations}),
    );
  }
  let t_enum = rep.elapsed_s();
  // one oversized stored value (> 32 MiB docstore cap), flat schema
  let oversize_bytes = 33usize << 20;
  let mut oversize_cases = 0usize; // reported in the evidence
  if !quick {
    let n_variants = oversize_variants(16).len();
    for vi in 0..n_variants {
      let (name, sjson, d) = oversize_variants(oversize_bytes).swap_remove(vi);
      let verdict = judge(&sjson, &d);
      let outcome = run_doc(&sjson, &d);
      evals.fetch_add(1, Ordering::Relaxed);
      oversize_cases += 1;
      *outcomes.lock().entry(outcome_class(&outcome).to_string()).or_insert(0) += 1;
      if let Some((sig, what)) = evaluate(false, true, &verdict, &outcome) {
        *failure_classes.entry(sig.map(|s| s.to_string()).unwrap_or_else(|| "unexplained: oversized stored value".into())).or_insert(0) += 1;
        rep.fail(
          sig,
          &format!("document whose stored form exceeds the 32 MiB docstore cap through {name} ({} MiB): {what}", oversize_bytes >> 20),
          json!({"engine": "inputmc-docs", "schema_name": name, "schema_json": sjson, "oversize_bytes": oversize_bytes, "oversize_variant": vi, "mutations": []}),
        );
      }
    }
  }
  rep.add_evals(evals.load(Ordering::Relaxed));
  let to = timed_out.load(Ordering::Relaxed);
  let oc = outcomes.lock().clone();
  if oc.len() < 2 {
    vcore::ev::machinery_failure("C15: fewer than 2 distinct outcomes observed (vacuous)");
  }
  let rs: BTreeMap<String, Value> = reason_stats.lock().iter().map(|(k, (n, r))| (k.clone(), json!({"cases": n, "rejected_at_add": r}))).collect();
  let cov = vcore::cov! {
    "distinct_nontrivial" => invalid_cases.load(Ordering::Relaxed),
    "oversized_stored_form_cases" => oversize_cases,
    "rule" => "cases = per schema, every base document + every distinct result of one mutation operator + every distinct result of two (quick: second-order mutants of the two simplest base documents per schema only, and none on top of a schema-derived key); plus, as first-order operators, every top-level key derived from the schema's field paths (nested leaf paths, nested object paths, those and every field / nested field / id name extended by a segment, leaf paths extended by two) with a value of each of 9 JSON shapes (judged only by add Ok => commit Ok, later commits not blocked); shape operators: drop/blank/whitespace/non-string id, add unknown top-level field, for every value location replace by each of 11 typed values (null, bool, int, float, string, mixed array, float array, array of arrays, [[]], object, {}), wrap in an array, drop each property, add unknown property, append string/int/float/null/[]/{}/[first] to each array; plus (thorough only: memory and time) six documents whose stored form exceeds the 32 MiB docstore cap: through one top-level text / keyword value, two top-level values together, one property of a nested object, properties of two nested objects together, and a value whose JSON escaping exceeds the cap. A case is non-trivial when the independent predicate finds at least one schema violation in it.",
    "schemas" => universes().iter().map(|u| u.0).collect::<Vec<_>>(),
    "base_documents" => per_depth[0],
    "single_mutants" => per_depth[1],
    "double_mutants" => per_depth[2],
    "cases_with_unspecified_validity" => unspecified_cases.load(Ordering::Relaxed),
    "outcome_counts" => oc,
    "single_reason_cases" => rs,
    "failure_classes" => failure_classes,
    "distinct_observed_outcomes" => oc.len(),
    "generation_wall_s" => t_gen,
    "enumeration_wall_s" => t_enum,
    "cap_hit" => if to { Some(format!("wall budget {deadline}s")) } else { None },
    "exhaustive" => !to,
  };
  rep.finish(
    cov,
    vec![
      "integers in an f64 field, empty arrays, single-element arrays and dotted top-level names (\"c.a\") are not judged invalid: the documentation does not say".into(),
      "null elements inside arrays of a nullable field / nullable nested field are unspecified and demand nothing".into(),
      "nullable nested properties may be absent (the code and index-schema.json treat nullable as optional); non-nullable ones are required".into(),
      "top-level schema fields are optional in a document (README examples omit fields)".into(),
    ],
  )
}
