//! C15 — not implemented yet.
use crate::Ctx;

pub fn run(_ctx: &Ctx) -> i32 {
  eprintln!("C15: check not implemented");
  2
}
