//! C30 — composite aggregation paging is complete.
//! Engine: inputmc composite — C12 worlds (every corpus x every segment layout + deletion
//! variants) x 3 queries x 8 source lists (terms / histogram over keyword, f64 and i64 fields,
//! interval 1 and 2) x page size 1..5.  Oracle: the pages obtained by feeding `after_key` back as
//! `after`, concatenated, are the buckets of one size = 10000 request (keys, order, counts,
//! sub-aggregations); every page that carries an `after_key` is non-empty and no longer than the
//! page size; the walk ends (after_key absent) and the unpaged request has no after_key.

use std::collections::{BTreeMap, BTreeSet};

use rayon::prelude::*;
use searchlite_core::api::types::{Aggregation, AggregationResponse, BucketResponse, CompositeAggregation, CompositeSource, SearchRequest};
use searchlite_core::api::IndexReader;
use serde_json::{json, Value};

use vcore::ev::Reporter;
use vcore::inp::*;

use crate::c12::{c12_queries, corpora, diff, layout_groups, mk_world, replay_with, QSpec};
use crate::Ctx;

#[derive(Clone)]
struct Cfg {
  name: &'static str,
  sources: Vec<CompositeSource>,
}

fn configs() -> Vec<Cfg> {
  let t = |name: &str, field: &str| CompositeSource::Terms { name: name.into(), field: field.into() };
  let h = |field: &str, interval: f64| CompositeSource::Histogram { name: "h".into(), field: field.into(), interval };
  vec![
    Cfg { name: "[terms kw]", sources: vec![t("k", "kw")] },
    Cfg { name: "[hist f/1]", sources: vec![h("f", 1.0)] },
    Cfg { name: "[hist f/2]", sources: vec![h("f", 2.0)] },
    Cfg { name: "[hist n/1]", sources: vec![h("n", 1.0)] },
    Cfg { name: "[hist n/2]", sources: vec![h("n", 2.0)] },
    Cfg { name: "[terms kw, hist f/1]", sources: vec![t("k", "kw"), h("f", 1.0)] },
    Cfg { name: "[terms kw, hist f/2]", sources: vec![t("k", "kw"), h("f", 2.0)] },
    Cfg { name: "[terms kw, terms kw2]", sources: vec![t("k", "kw"), t("k2", "kw2")] },
  ]
}

fn sub_aggs() -> BTreeMap<String, Aggregation> {
  let v = json!({"vc": {"type": "value_count", "field": "f"}, "card": {"type": "cardinality", "field": "kw"}, "st": {"type": "stats", "field": "n"}});
  serde_json::from_value(v).expect("sub aggs")
}

fn page(reader: &IndexReader, tmpl: &SearchRequest, n: usize, sources: &[CompositeSource], subs: &BTreeMap<String, Aggregation>, size: usize, after: Option<Value>) -> Result<(Vec<BucketResponse>, Option<Value>), String> {
  let mut r = tmpl.clone();
  r.limit = n.max(1);
  r.aggs = BTreeMap::new();
  r.aggs.insert("c".into(), Aggregation::Composite(Box::new(CompositeAggregation { sources: sources.to_vec(), size, after, sampling: None, aggs: subs.clone() })));
  let res = search_caught(reader, &r)?;
  match res.aggregations.get("c") {
    Some(AggregationResponse::Composite { buckets, after_key, .. }) => Ok((buckets.clone(), after_key.clone())),
    other => Err(format!("response is not a composite aggregation: {other:?}")),
  }
}

fn brief(b: &[BucketResponse]) -> String {
  let v: Vec<String> = b.iter().map(|x| format!("{}:{}", x.key, x.doc_count)).collect();
  format!("[{}]", v.join(", "))
}

/// Walk all pages of size `p`; Ok(number of pages) or Err(what is wrong).
fn check_walk(reader: &IndexReader, tmpl: &SearchRequest, n: usize, sources: &[CompositeSource], subs: &BTreeMap<String, Aggregation>, p: usize, full: &[BucketResponse]) -> Result<usize, String> {
  let mut got: Vec<BucketResponse> = Vec::new();
  let mut after: Option<Value> = None;
  let mut pages = 0usize;
  let mut trail: Vec<String> = Vec::new();
  loop {
    let (b, ak) = page(reader, tmpl, n, sources, subs, p, after.clone()).map_err(|e| format!("page {} (after={}) failed: {e}", pages + 1, json!(after)))?;
    pages += 1;
    trail.push(format!("{} after_key={}", brief(&b), json!(ak)));
    if b.len() > p {
      return Err(format!("page {pages} has {} buckets for size {p}; pages: {trail:?}", b.len()));
    }
    got.extend(b.iter().cloned());
    match ak {
      None => break,
      Some(k) => {
        if b.is_empty() {
          return Err(format!("page {pages} is empty but carries after_key {k}; pages: {trail:?}"));
        }
        after = Some(k);
      }
    }
    if pages > full.len() + 2 {
      return Err(format!("the walk does not end after {pages} pages for {} buckets; pages: {trail:?}", full.len()));
    }
  }
  if got != full {
    let (a, b) = (serde_json::to_value(&got).unwrap(), serde_json::to_value(full).unwrap());
    if let Some(d) = diff(&a, &b, "") {
      return Err(format!("concatenated pages differ from the unpaged buckets at {d}; paged {} vs unpaged {}; pages: {trail:?}", brief(&got), brief(full)));
    }
  }
  Ok(pages)
}

struct Out {
  fails: Vec<(String, Value)>,
  more: u64,
  evals: u64,
  worlds: u64,
  nontrivial: u64,
  empty_full: u64,
  outcomes: BTreeSet<String>,
}

fn check_corpus(shape_idx: &[usize], queries: &[QSpec], tmpls: &[SearchRequest], cfgs: &[Cfg], subs: &BTreeMap<String, Aggregation>) -> Out {
  let mut out = Out { fails: vec![], more: 0, evals: 0, worlds: 0, nontrivial: 0, empty_full: 0, outcomes: BTreeSet::new() };
  let n = shape_idx.len();
  for (deleted, layouts) in layout_groups(n) {
    for layout in &layouts {
      let world = mk_world(shape_idx, layout, &deleted);
      let idx = world.build();
      let reader = idx.reader().expect("reader");
      out.worlds += 1;
      for (qi, q) in queries.iter().enumerate() {
        for cfg in cfgs {
          let fail = |out: &mut Out, p: usize, what: String| {
            if out.fails.len() < 3 {
              out.fails.push((
                format!("docs={} layout={:?} deleted={:?} query={} sources={} page_size={}: {}", json!(world.docs), layout, deleted, q.name, cfg.name, p, what),
                json!({"engine": "inputmc-composite", "world": world.to_json(), "query": q.to_json(), "sources": serde_json::to_value(&cfg.sources).unwrap(), "page_size": p}),
              ));
            } else {
              out.more += 1;
            }
          };
          let full = match page(&reader, &tmpls[qi], n, &cfg.sources, subs, 10_000, None) {
            Ok((b, None)) => b,
            Ok((b, Some(k))) => {
              out.evals += 1;
              fail(&mut out, 10_000, format!("the unpaged request (size 10000, {} buckets) carries after_key {k}", b.len()));
              continue;
            }
            Err(e) => {
              out.evals += 1;
              fail(&mut out, 10_000, format!("unpaged request failed: {e}"));
              continue;
            }
          };
          if full.is_empty() {
            out.empty_full += 1;
          }
          for p in 1..=5usize {
            out.evals += 1;
            match check_walk(&reader, &tmpls[qi], n, &cfg.sources, subs, p, &full) {
              Ok(pages) => {
                if pages >= 3 {
                  out.nontrivial += 1;
                }
                out.outcomes.insert(format!("{}buckets/{}pages", full.len(), pages));
              }
              Err(what) => {
                out.outcomes.insert("FAIL".into());
                fail(&mut out, p, what)
              }
            }
          }
        }
      }
    }
  }
  out
}

fn replay_once(cs: &Value) -> Option<String> {
  let world = World::from_json(&cs["world"]);
  let q = QSpec::from_json(&cs["query"]);
  let sources: Vec<CompositeSource> = serde_json::from_value(cs["sources"].clone()).expect("sources");
  let p = cs["page_size"].as_u64().unwrap_or(1) as usize;
  let idx = world.build();
  let reader = idx.reader().expect("reader");
  let subs = sub_aggs();
  let n = world.docs.len();
  let tmpl = q.template();
  let full = match page(&reader, &tmpl, n, &sources, &subs, 10_000, None) {
    Ok((b, None)) => b,
    Ok((_, Some(k))) => return Some(format!("the unpaged request carries after_key {k}")),
    Err(e) => return Some(format!("unpaged request failed: {e}")),
  };
  if p >= 10_000 {
    return None;
  }
  check_walk(&reader, &tmpl, n, &sources, &subs, p, &full).err()
}

pub fn run(ctx: &Ctx) -> i32 {
  let mut rep = Reporter::new("C30", ctx.tier, "exploration");
  let quick = ctx.tier.is_quick();
  if let Some(path) = &ctx.replay {
    rep.set_replaying(true);
    return replay_with("C30", path, &replay_once);
  }
  let queries = c12_queries();
  let tmpls: Vec<SearchRequest> = queries.iter().map(|q| q.template()).collect();
  let cfgs = configs();
  let subs = sub_aggs();
  // canary: the comparison must reject a bucket list that lost its first bucket
  {
    let world = mk_world(&[0, 1, 2], &[2, 1], &[]);
    let idx = world.build();
    let reader = idx.reader().expect("reader");
    let (full, _) = page(&reader, &tmpls[0], 3, &cfgs[0].sources, &subs, 10_000, None).unwrap_or_default();
    if full.len() < 2 || check_walk(&reader, &tmpls[0], 3, &cfgs[0].sources, &subs, 1, &full).is_err() || check_walk(&reader, &tmpls[0], 3, &cfgs[0].sources, &subs, 1, &full[1..]).is_ok() {
      vcore::ev::machinery_failure("C30: canary walk comparison did not behave as expected");
    }
  }
  let mut all: Vec<Vec<usize>> = Vec::new();
  let plan = if quick {
    all.extend(corpora(8, 1, 3));
    all.extend(corpora(5, 4, 4));
    "len<=3 over 8 shapes, len 4 over 5"
  } else {
    all.extend(corpora(10, 1, 4));
    all.extend(corpora(6, 5, 5));
    "len<=4 over 10 shapes, len 5 over 6"
  };
  let deadline = if quick { 33.0 } else { 840.0 };
  let (mut evals, mut worlds, mut nontrivial, mut empty_full, mut done) = (0u64, 0u64, 0u64, 0u64, 0usize);
  let mut outcomes: BTreeSet<String> = BTreeSet::new();
  let mut timed_out = false;
  for chunk in all.chunks(128) {
    if rep.elapsed_s() > deadline {
      timed_out = true;
      break;
    }
    let outs: Vec<Out> = chunk.par_iter().map(|c| check_corpus(c, &queries, &tmpls, &cfgs, &subs)).collect();
    done += chunk.len();
    for o in outs {
      let first = o.fails.first().cloned();
      for (what, case) in o.fails {
        rep.fail(None, &what, case);
      }
      for _ in 0..o.more {
        match &first {
          Some(w) if rep.violations() < 6 => rep.fail(None, &w.0, w.1.clone()),
          _ => rep.fail(None, "(further failing walk in the same corpus)", json!({})),
        }
      }
      evals += o.evals;
      worlds += o.worlds;
      nontrivial += o.nontrivial;
      empty_full += o.empty_full;
      outcomes.extend(o.outcomes);
    }
  }
  rep.add_evals(evals);
  rep.sample(json!({"corpus_shapes": all.get(all.len() / 2), "sources": cfgs.iter().map(|c| c.name).collect::<Vec<_>>(), "page_sizes": [1, 2, 3, 4, 5], "sub_aggs": ["value_count f", "cardinality kw", "stats n"]}));
  if outcomes.len() < 2 {
    vcore::ev::machinery_failure("C30: fewer than two distinct outcomes observed");
  }
  let cov = vcore::cov! {
    "distinct_nontrivial" => nontrivial,
    "rule" => "case = (corpus = sequence of document shapes, deletion set, segment layout, query, composite source list, page size 1..5); non-trivial when the walk has at least 3 pages. Oracle: concatenated pages == buckets of the size-10000 request (keys, order, doc_counts, sub-aggregations value_count/cardinality/stats); pages carrying after_key are non-empty and at most page-size long; the walk ends; the unpaged request has no after_key.",
    "corpora" => done,
    "corpora_planned" => all.len(),
    "corpus_plan" => plan,
    "worlds" => worlds,
    "queries" => queries.len(),
    "source_lists" => cfgs.len(),
    "walks_over_an_empty_bucket_list" => empty_full,
    "distinct_observed_outcomes" => outcomes.len(),
    "cap_hit" => if timed_out { Some(format!("wall budget {deadline}s")) } else { None },
    "exhaustive" => !timed_out,
  };
  rep.finish(cov, vec![
    "a trailing empty page without after_key would be accepted (the statement only requires after_key to be absent exactly on the last page)".into(),
    "histogram sources over the i64 field currently produce no buckets at all (C12 finding C12-composite-histogram-source-ignores-i64-field); paged and unpaged agree on the empty list, so those walks are trivially complete and are counted in walks_over_an_empty_bucket_list".into(),
    "the value of after_key is not constrained beyond being accepted as `after`".into(),
  ])
}
