//! C23 — HTTP writes acknowledged as queued are never silently dropped.
//! Engine: httpmc — breadth-first exploration of request sequences against a live in-process
//! `searchlite_http::run` server (one fresh server + directory per explored transition), compared
//! step by step with a queue model; states are deduplicated on (model queue, model committed).
//!
//! The `pub` items in the first half of this file (live server, raw HTTP/1.1 client) are shared
//! with C24.

use std::collections::{BTreeMap, HashMap, HashSet};
use std::io::{Read, Write};
use std::net::{SocketAddr, TcpListener, TcpStream};
use std::path::{Path, PathBuf};
use std::sync::Once;
use std::time::{Duration, Instant};

use parking_lot::Mutex;
use rayon::prelude::*;
use serde_json::{json, Value};

use vcore::ev::Reporter;
use vcore::world::Scratch;

use crate::Ctx;

// =============================================================================================
// Shared: live server
// =============================================================================================

static PORTS_IN_USE: Mutex<Option<HashSet<u16>>> = Mutex::new(None);
static PANIC_LOG: Mutex<Option<HashMap<u16, Vec<String>>>> = Mutex::new(None);
static INIT: Once = Once::new();

const THREAD_PREFIX: &str = "slhttp-";

/// Process-wide setup, once: (1) tokio's signal driver replaces the default SIGTERM/SIGINT
/// disposition as soon as the first server calls `shutdown_signal`, so keep the process killable;
/// (2) panics raised on server threads are recorded per port instead of being printed.
fn global_init() {
  INIT.call_once(|| {
    std::thread::Builder::new()
      .name("sig-exit".into())
      .spawn(|| {
        let rt = tokio::runtime::Builder::new_current_thread().enable_all().build().expect("signal runtime");
        rt.block_on(async {
          use tokio::signal::unix::{signal, SignalKind};
          let mut term = signal(SignalKind::terminate()).expect("SIGTERM listener");
          let mut int = signal(SignalKind::interrupt()).expect("SIGINT listener");
          tokio::select! { _ = term.recv() => {}, _ = int.recv() => {} }
        });
        vcore::world::cleanup_scratch_root();
        std::process::exit(143);
      })
      .expect("spawn signal thread");
    let prev = std::panic::take_hook();
    std::panic::set_hook(Box::new(move |info| {
      let t = std::thread::current();
      if let Some(port) = t.name().and_then(|n| n.strip_prefix(THREAD_PREFIX)).and_then(|p| p.parse::<u16>().ok()) {
        let loc = info.location().map(|l| format!("{}:{}", l.file(), l.line())).unwrap_or_default();
        let msg = if let Some(s) = info.payload().downcast_ref::<&str>() {
          s.to_string()
        } else if let Some(s) = info.payload().downcast_ref::<String>() {
          s.clone()
        } else {
          "<non-string panic>".into()
        };
        PANIC_LOG.lock().get_or_insert_with(HashMap::new).entry(port).or_default().push(format!("{msg} @ {loc}"));
      } else {
        prev(info);
      }
    }));
  });
}

fn pick_port() -> u16 {
  let mut tries = 0;
  loop {
    let l = match TcpListener::bind("127.0.0.1:0") {
      Ok(l) => l,
      Err(e) => {
        tries += 1;
        if tries > 2000 {
          vcore::ev::machinery_failure(&format!("no free loopback port: {e}"));
        }
        std::thread::sleep(Duration::from_millis(10));
        continue;
      }
    };
    let p = l.local_addr().expect("local addr").port();
    drop(l);
    let mut g = PORTS_IN_USE.lock();
    if g.get_or_insert_with(HashSet::new).insert(p) {
      return p;
    }
  }
}

fn release_port(p: u16) {
  if let Some(s) = PORTS_IN_USE.lock().as_mut() {
    s.remove(&p);
  }
  if let Some(m) = PANIC_LOG.lock().as_mut() {
    m.remove(&p);
  }
}

/// A live `searchlite_http::run` server on 127.0.0.1:<port>, on its own tokio runtime. Dropping it
/// tears the runtime down (the listener closes) and removes its scratch directory.
pub struct Server {
  pub port: u16,
  #[allow(dead_code)]
  pub index_dir: PathBuf,
  rt: Option<tokio::runtime::Runtime>,
  handle: tokio::task::JoinHandle<anyhow::Result<()>>,
  _scratch: Option<Scratch>,
}

impl Server {
  /// Fresh scratch directory, index path `<scratch>/idx` (not created: the server starts with no
  /// index). `extra` = additional command-line flags.
  pub fn fresh(tag: &str, extra: &[&str]) -> Server {
    let scratch = Scratch::new(tag);
    let dir = scratch.sub("idx");
    let mut s = Server::start(&dir, extra);
    s._scratch = Some(scratch);
    s
  }

  pub fn start(index_dir: &Path, extra: &[&str]) -> Server {
    global_init();
    let mut last_err = String::new();
    for _attempt in 0..50 {
      let port = pick_port();
      let mut argv: Vec<String> = vec![
        "searchlite-http".into(),
        "--index".into(),
        index_dir.display().to_string(),
        "--bind".into(),
        format!("127.0.0.1:{port}"),
        "--shutdown-grace-secs".into(),
        "0".into(),
      ];
      argv.extend(extra.iter().map(|s| s.to_string()));
      let args = <searchlite_http::ServeArgs as clap::Parser>::try_parse_from(argv).unwrap_or_else(|e| vcore::ev::machinery_failure(&format!("ServeArgs: {e}")));
      let rt = tokio::runtime::Builder::new_multi_thread()
        .worker_threads(1)
        .max_blocking_threads(8)
        .thread_keep_alive(Duration::from_millis(200))
        .thread_name(format!("{THREAD_PREFIX}{port}"))
        .enable_all()
        .build()
        .unwrap_or_else(|e| vcore::ev::machinery_failure(&format!("tokio runtime: {e}")));
      let handle = rt.spawn(searchlite_http::run(args));
      let deadline = Instant::now() + Duration::from_secs(20);
      let mut up = false;
      while Instant::now() < deadline {
        if handle.is_finished() {
          break;
        }
        if let Ok(r) = exchange(port, &request_bytes("GET", "/healthz", None, None), Duration::from_millis(500)) {
          if r.status == 200 {
            up = true;
            break;
          }
        }
        std::thread::sleep(Duration::from_micros(300));
      }
      if up && !handle.is_finished() {
        return Server { port, index_dir: index_dir.to_path_buf(), rt: Some(rt), handle, _scratch: None };
      }
      last_err = if handle.is_finished() {
        match rt.block_on(handle) {
          Ok(Err(e)) => format!("{e:#}"),
          Ok(Ok(())) => "server returned".into(),
          Err(e) => format!("join: {e}"),
        }
      } else {
        "no /healthz answer in 20 s".into()
      };
      rt.shutdown_background();
      release_port(port);
    }
    vcore::ev::machinery_failure(&format!("cannot start HTTP server: {last_err}"));
  }

  /// False once `run` has returned (bind failure, fatal error): the conversation was void.
  pub fn is_running(&self) -> bool {
    !self.handle.is_finished()
  }

  /// Panics raised on this server's threads so far (message @ file:line), drained.
  pub fn take_panics(&self) -> Vec<String> {
    PANIC_LOG.lock().as_mut().and_then(|m| m.remove(&self.port)).unwrap_or_default()
  }

  pub fn send(&self, method: &str, path: &str, ctype: Option<&str>, body: Option<&[u8]>) -> Result<Resp, String> {
    exchange(self.port, &request_bytes(method, path, ctype, body), Duration::from_secs(20))
  }

  pub fn post_json(&self, path: &str, v: &Value) -> Result<Resp, String> {
    self.send("POST", path, Some("application/json"), Some(v.to_string().as_bytes()))
  }
}

impl Drop for Server {
  fn drop(&mut self) {
    self.handle.abort();
    if let Some(rt) = self.rt.take() {
      rt.shutdown_background();
    }
    release_port(self.port);
  }
}

// =============================================================================================
// Shared: raw HTTP/1.1 client
// =============================================================================================

#[derive(Debug, Clone)]
pub struct Resp {
  pub status: u16,
  pub headers: Vec<(String, String)>,
  pub body: Vec<u8>,
}

impl Resp {
  pub fn header(&self, name: &str) -> Option<&str> {
    self.headers.iter().find(|(k, _)| k.eq_ignore_ascii_case(name)).map(|(_, v)| v.as_str())
  }
  pub fn is_2xx(&self) -> bool {
    (200..300).contains(&self.status)
  }
  pub fn json(&self) -> Option<Value> {
    serde_json::from_slice(&self.body).ok()
  }
  pub fn body_text(&self) -> String {
    let s = String::from_utf8_lossy(&self.body);
    if s.len() > 300 {
      format!("{}...", s.chars().take(300).collect::<String>())
    } else {
      s.into_owned()
    }
  }
  /// `error.type` of the documented error envelope, if the body is one.
  pub fn error_type(&self) -> Option<String> {
    envelope(&self.body).map(|(t, _)| t)
  }
}

/// `{"error":{"type":<string>,"reason":<string>}}` -> (type, reason).
pub fn envelope(body: &[u8]) -> Option<(String, String)> {
  let v: Value = serde_json::from_slice(body).ok()?;
  let e = v.as_object()?.get("error")?.as_object()?;
  Some((e.get("type")?.as_str()?.to_string(), e.get("reason")?.as_str()?.to_string()))
}

/// A well-framed HTTP/1.1 request: `body = None` sends neither a body nor Content-Length (what
/// `curl -XPOST url` does), `Some(b)` sends Content-Length: len(b).
pub fn request_bytes(method: &str, path: &str, ctype: Option<&str>, body: Option<&[u8]>) -> Vec<u8> {
  let mut out = Vec::with_capacity(128 + body.map_or(0, |b| b.len()));
  out.extend_from_slice(format!("{method} {path} HTTP/1.1\r\nHost: 127.0.0.1\r\nConnection: close\r\n").as_bytes());
  if let Some(ct) = ctype {
    out.extend_from_slice(format!("Content-Type: {ct}\r\n").as_bytes());
  }
  if let Some(b) = body {
    out.extend_from_slice(format!("Content-Length: {}\r\n", b.len()).as_bytes());
  }
  out.extend_from_slice(b"\r\n");
  if let Some(b) = body {
    out.extend_from_slice(b);
  }
  out
}

fn find(hay: &[u8], needle: &[u8], from: usize) -> Option<usize> {
  if hay.len() < needle.len() || from > hay.len() - needle.len() {
    return None;
  }
  (from..=hay.len() - needle.len()).find(|&i| &hay[i..i + needle.len()] == needle)
}

enum Parse {
  Complete(Resp),
  NeedMore,
  /// Complete only if the peer closes here (no Content-Length, not chunked).
  UntilEof(Resp),
  Bad(String),
}

fn parse_response(buf: &[u8]) -> Parse {
  let mut start = 0;
  loop {
    let Some(hend) = find(buf, b"\r\n\r\n", start) else {
      return Parse::NeedMore;
    };
    let head = match std::str::from_utf8(&buf[start..hend]) {
      Ok(h) => h,
      Err(_) => return Parse::Bad("response head is not UTF-8".into()),
    };
    let mut lines = head.split("\r\n");
    let status_line = lines.next().unwrap_or("");
    let mut parts = status_line.splitn(3, ' ');
    let ver = parts.next().unwrap_or("");
    let code = parts.next().unwrap_or("");
    if !ver.starts_with("HTTP/1.") {
      return Parse::Bad(format!("bad status line {status_line:?}"));
    }
    let Ok(status) = code.parse::<u16>() else {
      return Parse::Bad(format!("bad status line {status_line:?}"));
    };
    let mut headers = Vec::new();
    for l in lines {
      match l.split_once(':') {
        Some((k, v)) => headers.push((k.trim().to_string(), v.trim().to_string())),
        None => return Parse::Bad(format!("bad header line {l:?}")),
      }
    }
    let body_start = hend + 4;
    if (100..200).contains(&status) {
      start = body_start;
      continue;
    }
    let get = |n: &str| headers.iter().find(|(k, _)| k.eq_ignore_ascii_case(n)).map(|(_, v)| v.clone());
    if status == 204 || status == 304 {
      return Parse::Complete(Resp { status, headers, body: Vec::new() });
    }
    if get("transfer-encoding").map(|v| v.to_ascii_lowercase().contains("chunked")).unwrap_or(false) {
      let mut body = Vec::new();
      let mut p = body_start;
      loop {
        let Some(le) = find(buf, b"\r\n", p) else {
          return Parse::NeedMore;
        };
        let size_str = String::from_utf8_lossy(&buf[p..le]);
        let size_str = size_str.split(';').next().unwrap_or("").trim().to_string();
        let Ok(size) = usize::from_str_radix(&size_str, 16) else {
          return Parse::Bad(format!("bad chunk size {size_str:?}"));
        };
        p = le + 2;
        if size == 0 {
          // trailers until the empty line
          return match find(buf, b"\r\n", p) {
            Some(_) => Parse::Complete(Resp { status, headers, body }),
            None => Parse::NeedMore,
          };
        }
        if buf.len() < p + size + 2 {
          return Parse::NeedMore;
        }
        body.extend_from_slice(&buf[p..p + size]);
        p += size + 2;
      }
    }
    if let Some(cl) = get("content-length") {
      let Ok(n) = cl.parse::<usize>() else {
        return Parse::Bad(format!("bad Content-Length {cl:?}"));
      };
      if buf.len() < body_start + n {
        return Parse::NeedMore;
      }
      return Parse::Complete(Resp { status, headers, body: buf[body_start..body_start + n].to_vec() });
    }
    return Parse::UntilEof(Resp { status, headers, body: buf[body_start..].to_vec() });
  }
}

/// One request/response exchange on a new connection. `Err` describes why no complete HTTP
/// response arrived (connect failure, close / reset / timeout before a complete response,
/// unparsable response).
pub fn exchange(port: u16, request: &[u8], timeout: Duration) -> Result<Resp, String> {
  let addr: SocketAddr = format!("127.0.0.1:{port}").parse().unwrap();
  let mut s = TcpStream::connect_timeout(&addr, timeout).map_err(|e| format!("connect: {e}"))?;
  let _ = s.set_nodelay(true);
  // SO_LINGER 0: close with RST once the exchange is over, so that tens of thousands of short
  // connections do not park the ephemeral port range in TIME_WAIT.
  {
    use std::os::fd::AsRawFd;
    let lg = libc::linger { l_onoff: 1, l_linger: 0 };
    unsafe {
      libc::setsockopt(s.as_raw_fd(), libc::SOL_SOCKET, libc::SO_LINGER, &lg as *const _ as *const libc::c_void, std::mem::size_of::<libc::linger>() as libc::socklen_t);
    }
  }
  let _ = s.set_read_timeout(Some(timeout));
  let _ = s.set_write_timeout(Some(timeout));
  // a write error is not decisive: the server may answer (e.g. 413) and close before reading all
  let werr = s.write_all(request).err();
  let mut buf: Vec<u8> = Vec::with_capacity(1024);
  let mut chunk = [0u8; 16384];
  let started = Instant::now();
  loop {
    match parse_response(&buf) {
      Parse::Complete(r) => return Ok(r),
      Parse::Bad(m) => return Err(format!("malformed response: {m}")),
      Parse::NeedMore | Parse::UntilEof(_) => {}
    }
    if started.elapsed() > timeout {
      return Err(format!("timeout: no complete response within {timeout:?} ({} bytes received)", buf.len()));
    }
    match s.read(&mut chunk) {
      Ok(0) => {
        return match parse_response(&buf) {
          Parse::Complete(r) | Parse::UntilEof(r) => Ok(r),
          Parse::Bad(m) => Err(format!("malformed response: {m}")),
          Parse::NeedMore => Err(format!(
            "connection closed before a complete response ({} bytes received{})",
            buf.len(),
            werr.as_ref().map(|e| format!(", write error: {e}")).unwrap_or_default()
          )),
        };
      }
      Ok(n) => buf.extend_from_slice(&chunk[..n]),
      Err(e) if matches!(e.kind(), std::io::ErrorKind::WouldBlock | std::io::ErrorKind::TimedOut) => {
        return Err(format!("timeout: no complete response within {timeout:?} ({} bytes received)", buf.len()));
      }
      Err(e) if e.kind() == std::io::ErrorKind::Interrupted => {}
      Err(e) => {
        return match parse_response(&buf) {
          Parse::Complete(r) => Ok(r),
          _ => Err(format!("connection error before a complete response: {e} ({} bytes received)", buf.len())),
        };
      }
    }
  }
}

/// Schema used by both HTTP checks: `_id` + one stored, indexed text field `body`.
pub fn http_schema() -> Value {
  vcore::inp::schema_text_default()
}

pub const MATCH_ALL: &str = r#"{"query":{"type":"match_all"},"limit":100,"return_stored":true,"highlight_field":null,"execution":"bm25"}"#;

// =============================================================================================
// C23 model
// =============================================================================================

#[derive(Clone, Debug, PartialEq, Eq, Hash, PartialOrd, Ord)]
enum QOp {
  Add(&'static str, &'static str),
  Del(&'static str),
}

#[derive(Clone, Copy, Debug, PartialEq, Eq, Hash, PartialOrd, Ord)]
enum Act {
  AddOne,
  AddTwo,
  AddInvalid,
  AddValidInvalid,
  AddBlank,
  AddOddId,
  BulkValid,
  BulkInvalid,
  BulkValidInvalid,
  DeleteValid,
  DeleteWhitespace,
  Commit,
  Refresh,
  Compact,
  Search,
}

const ALPHABET: [Act; 15] = [
  Act::AddOne,
  Act::AddTwo,
  Act::BulkValid,
  Act::DeleteValid,
  Act::Commit,
  Act::AddInvalid,
  Act::AddValidInvalid,
  Act::AddBlank,
  Act::AddOddId,
  Act::BulkInvalid,
  Act::BulkValidInvalid,
  Act::DeleteWhitespace,
  Act::Refresh,
  Act::Compact,
  Act::Search,
];

impl Act {
  fn name(self) -> &'static str {
    match self {
      Act::AddOne => "add[a=v1]",
      Act::AddTwo => "add[a=v2,b=v2]",
      Act::AddInvalid => "add[c=<number>]",
      Act::AddValidInvalid => "add[c=v3,d=<number>]",
      Act::AddBlank => "add[blank]",
      Act::AddOddId => "add[f=v6,'g '=v6]",
      Act::BulkValid => "bulk[b=v4,c=v4]",
      Act::BulkInvalid => "bulk[d=<number>]",
      Act::BulkValidInvalid => "bulk[d=v5,e=<number>]",
      Act::DeleteValid => "delete[a]",
      Act::DeleteWhitespace => "delete[' ']",
      Act::Commit => "commit",
      Act::Refresh => "refresh",
      Act::Compact => "compact",
      Act::Search => "search",
    }
  }
  fn from_name(s: &str) -> Option<Act> {
    ALPHABET.iter().copied().find(|a| a.name() == s)
  }
  /// (path, content type, body)
  fn request(self) -> (&'static str, Option<&'static str>, Option<&'static str>) {
    const ND: Option<&str> = Some("application/x-ndjson");
    const JS: Option<&str> = Some("application/json");
    match self {
      Act::AddOne => ("/add", ND, Some("{\"_id\":\"a\",\"body\":\"v1\"}\n")),
      Act::AddTwo => ("/add", ND, Some("{\"_id\":\"a\",\"body\":\"v2\"}\n{\"_id\":\"b\",\"body\":\"v2\"}\n")),
      Act::AddInvalid => ("/add", ND, Some("{\"_id\":\"c\",\"body\":5}\n")),
      Act::AddValidInvalid => ("/add", ND, Some("{\"_id\":\"c\",\"body\":\"v3\"}\n{\"_id\":\"d\",\"body\":5}\n")),
      Act::AddBlank => ("/add", ND, Some("\n  \n")),
      // a schema-valid batch whose second id carries trailing whitespace: accepted today; a deeper
      // layer rejecting it after the first document was queued must not cost earlier acks
      Act::AddOddId => ("/add", ND, Some("{\"_id\":\"f\",\"body\":\"v6\"}\n{\"_id\":\"g \",\"body\":\"v6\"}\n")),
      Act::BulkValid => ("/bulk", JS, Some(r#"{"docs":[{"_id":"b","body":"v4"},{"_id":"c","body":"v4"}]}"#)),
      Act::BulkInvalid => ("/bulk", JS, Some(r#"{"docs":[{"_id":"d","body":5}]}"#)),
      Act::BulkValidInvalid => ("/bulk", JS, Some(r#"{"docs":[{"_id":"d","body":"v5"},{"_id":"e","body":5}]}"#)),
      Act::DeleteValid => ("/delete", JS, Some(r#"{"ids":["a"]}"#)),
      Act::DeleteWhitespace => ("/delete", JS, Some(r#"{"ids":[" "]}"#)),
      Act::Commit => ("/commit", None, None),
      Act::Refresh => ("/refresh", None, None),
      Act::Compact => ("/compact", None, None),
      Act::Search => ("/search", JS, Some(MATCH_ALL)),
    }
  }
  /// Operations this request asks to queue, in request order (the invalid documents included:
  /// an acknowledgement acknowledges the whole request).
  fn ops(self) -> Vec<QOp> {
    match self {
      Act::AddOne => vec![QOp::Add("a", "v1")],
      Act::AddTwo => vec![QOp::Add("a", "v2"), QOp::Add("b", "v2")],
      Act::AddInvalid => vec![QOp::Add("c", "<number>")],
      Act::AddValidInvalid => vec![QOp::Add("c", "v3"), QOp::Add("d", "<number>")],
      Act::AddBlank => vec![],
      Act::AddOddId => vec![QOp::Add("f", "v6"), QOp::Add("g ", "v6")],
      Act::BulkValid => vec![QOp::Add("b", "v4"), QOp::Add("c", "v4")],
      Act::BulkInvalid => vec![QOp::Add("d", "<number>")],
      Act::BulkValidInvalid => vec![QOp::Add("d", "v5"), QOp::Add("e", "<number>")],
      Act::DeleteValid => vec![QOp::Del("a")],
      Act::DeleteWhitespace => vec![QOp::Del(" ")],
      _ => vec![],
    }
  }
  fn is_write(self) -> bool {
    !matches!(self, Act::Commit | Act::Refresh | Act::Compact | Act::Search)
  }
  fn is_add_or_bulk(self) -> bool {
    self.is_write() && !matches!(self, Act::DeleteValid | Act::DeleteWhitespace)
  }
}

type Contents = BTreeMap<String, String>;

#[derive(Clone, Debug, Default, PartialEq, Eq, Hash, PartialOrd, Ord)]
struct Model {
  queue: Vec<QOp>,
  committed: Contents,
}

impl Model {
  fn apply(committed: &mut Contents, q: &[QOp]) {
    for op in q {
      match op {
        QOp::Add(id, body) => {
          committed.insert(id.to_string(), body.to_string());
        }
        QOp::Del(id) => {
          committed.remove(*id);
        }
      }
    }
  }
  fn after_commit(&self) -> Contents {
    let mut c = self.committed.clone();
    Model::apply(&mut c, &self.queue);
    c
  }
  /// The queue model of the property. `ack` = the response was 2xx.
  fn step(&mut self, a: Act, ack: bool) {
    if a.is_write() {
      if ack {
        self.queue.extend(a.ops());
      }
    } else if a == Act::Commit && ack {
      self.committed = self.after_commit();
      self.queue.clear();
    }
  }
  /// What the H11 defect predicts: as `step`, but a /add or /bulk request rejected by the writer
  /// (`add_failed`) also empties the whole shared queue.
  fn step_h11(&mut self, a: Act, ack: bool, err_type: Option<&str>) {
    if a.is_add_or_bulk() && !ack && err_type == Some("add_failed") {
      self.queue.clear();
      return;
    }
    self.step(a, ack);
  }
  fn describe(&self) -> Value {
    let q: Vec<String> = self
      .queue
      .iter()
      .map(|o| match o {
        QOp::Add(i, b) => format!("add {i}={b}"),
        QOp::Del(i) => format!("del {i}"),
      })
      .collect();
    json!({"queue": q, "committed": self.committed})
  }
}

pub const SIG_H11: &str = "C23-rejected-write-rolls-back-earlier-acks";

struct Eval {
  /// (action, status, error type) as observed
  steps: Vec<(Act, u16, Option<String>)>,
  model: Model,
  failure: Option<(Option<&'static str>, String)>,
}

fn parse_hits(r: &Resp) -> Result<Contents, String> {
  let v = r.json().ok_or_else(|| format!("search body is not JSON: {}", r.body_text()))?;
  let hits = v.get("hits").and_then(|h| h.as_array()).ok_or_else(|| format!("search body has no hits array: {}", r.body_text()))?;
  let mut out = Contents::new();
  for h in hits {
    let id = h.get("doc_id").and_then(|x| x.as_str()).ok_or_else(|| format!("hit without doc_id: {h}"))?;
    let body = match h.get("fields").and_then(|f| f.get("body")) {
      Some(Value::String(s)) => s.clone(),
      Some(other) => other.to_string(),
      None => "<no stored body>".into(),
    };
    if out.insert(id.to_string(), body).is_some() {
      return Err(format!("duplicate doc_id {id} in match_all"));
    }
  }
  Ok(out)
}

fn do_act(srv: &Server, a: Act) -> Result<Resp, String> {
  let (path, ct, body) = a.request();
  srv.send("POST", path, ct, body.map(|b| b.as_bytes()))
}

/// match_all; a mismatch is re-checked once after /refresh (the README allows a reader refresh to
/// be needed "depending on your staleness needs").
fn observe(srv: &Server, expected: &Contents) -> Result<Result<(), Contents>, String> {
  let r = do_act(srv, Act::Search)?;
  if !r.is_2xx() {
    return Err(format!("POST /search match_all answered {} {}", r.status, r.body_text()));
  }
  let got = parse_hits(&r)?;
  if &got == expected {
    return Ok(Ok(()));
  }
  let _ = do_act(srv, Act::Refresh)?;
  let r = do_act(srv, Act::Search)?;
  if !r.is_2xx() {
    return Err(format!("POST /search match_all answered {} {}", r.status, r.body_text()));
  }
  let got = parse_hits(&r)?;
  if &got == expected {
    Ok(Ok(()))
  } else {
    Ok(Err(got))
  }
}

fn seq_str(seq: &[Act]) -> String {
  seq.iter().map(|a| a.name()).collect::<Vec<_>>().join(" ; ")
}

/// Replay `seq` on a fresh server and check every response and observation against the model;
/// finish with the probe `search ; commit ; search`, which makes the hidden queue observable.
fn evaluate(seq: &[Act]) -> Eval {
  let srv = Server::fresh("c23", &[]);
  let mut ev = Eval { steps: Vec::new(), model: Model::default(), failure: None };
  let mut h11 = Model::default();
  macro_rules! machinery {
    ($e:expr) => {
      match $e {
        Ok(v) => v,
        Err(e) => {
          if !srv.is_running() {
            vcore::ev::machinery_failure(&format!("C23: server stopped during [{}]: {e}", seq_str(seq)));
          }
          ev.failure = Some((None, format!("[{}]: {e}", seq_str(seq))));
          return ev;
        }
      }
    };
  }
  let r = machinery!(srv.post_json("/init", &http_schema()));
  if !r.is_2xx() {
    vcore::ev::machinery_failure(&format!("C23: /init failed: {} {}", r.status, r.body_text()));
  }
  // (step label, observed) -> compare with both models
  let check_obs = |label: String, expected: &Contents, h11_expected: &Contents, srv: &Server| -> Result<(), (Option<&'static str>, String)> {
    match observe(srv, expected) {
      Err(e) => Err((None, format!("[{}] {label}: {e}", seq_str(seq)))),
      Ok(Ok(())) => Ok(()),
      Ok(Err(got)) => {
        let sig = if &got == h11_expected && h11_expected != expected { Some(SIG_H11) } else { None };
        let missing: Vec<&String> = expected.keys().filter(|k| got.get(*k) != expected.get(*k)).collect();
        Err((
          sig,
          format!(
            "[{}] {label}: match_all returns {:?}, the queue model expects {:?} (wrong or missing: {:?}){}",
            seq_str(seq),
            got,
            expected,
            missing,
            if sig.is_some() { "; exactly the writes acknowledged before a later rejected /add|/bulk (add_failed) are lost" } else { "" }
          ),
        ))
      }
    }
  };
  for (i, &a) in seq.iter().enumerate() {
    let r = machinery!(do_act(&srv, a));
    let ack = r.is_2xx();
    let et = if ack { None } else { r.error_type() };
    ev.steps.push((a, r.status, et.clone()));
    if a == Act::Search {
      if !ack {
        ev.failure = Some((None, format!("[{}] step {}: match_all search answered {} {}", seq_str(seq), i + 1, r.status, r.body_text())));
        return ev;
      }
      // queued writes are not searchable before /commit
      if let Err(f) = check_obs(format!("step {} (search)", i + 1), &ev.model.committed, &h11.committed, &srv) {
        ev.failure = Some(f);
        return ev;
      }
      continue;
    }
    if a.is_write() && ack {
      let want = a.ops().len() as u64;
      let got = r.json().and_then(|v| v.get("queued").and_then(|q| q.as_u64()));
      if got != Some(want) {
        ev.failure = Some((None, format!("[{}] step {}: {} acknowledged with body {} but the request carries {want} operations", seq_str(seq), i + 1, a.name(), r.body_text())));
        return ev;
      }
    }
    if a == Act::Commit && !ack {
      ev.failure = Some((
        None,
        format!("[{}] step {}: /commit of acknowledged writes {} failed: {} {}", seq_str(seq), i + 1, ev.model.describe(), r.status, r.body_text()),
      ));
      return ev;
    }
    ev.model.step(a, ack);
    h11.step_h11(a, ack, et.as_deref());
    if a == Act::Commit {
      if let Err(f) = check_obs(format!("after step {} (commit)", i + 1), &ev.model.committed, &h11.committed, &srv) {
        ev.failure = Some(f);
        return ev;
      }
    }
  }
  // probe: nothing queued is visible yet; a commit applies exactly the model queue
  if let Err(f) = check_obs("probe search before commit".into(), &ev.model.committed, &h11.committed, &srv) {
    ev.failure = Some(f);
    return ev;
  }
  let r = machinery!(do_act(&srv, Act::Commit));
  if !r.is_2xx() {
    ev.failure = Some((None, format!("[{}] probe /commit of acknowledged writes {} failed: {} {}", seq_str(seq), ev.model.describe(), r.status, r.body_text())));
    return ev;
  }
  if let Err(f) = check_obs("probe commit + search".into(), &ev.model.after_commit(), &h11.after_commit(), &srv) {
    ev.failure = Some(f);
    return ev;
  }
  if !srv.is_running() {
    vcore::ev::machinery_failure("C23: server task ended during an evaluation");
  }
  ev
}

fn case_json(seq: &[Act]) -> Value {
  json!({"engine": "httpmc", "schema": http_schema(), "sequence": seq.iter().map(|a| a.name()).collect::<Vec<_>>(),
    "requests": seq.iter().map(|a| { let (p, ct, b) = a.request(); json!({"method": "POST", "path": p, "content_type": ct, "body": b}) }).collect::<Vec<_>>(),
    "probe": ["search", "commit", "search"]})
}

pub fn run(ctx: &Ctx) -> i32 {
  let mut rep = Reporter::new("C23", ctx.tier, "model_checking");
  let quick = ctx.tier.is_quick();
  if let Some(path) = &ctx.replay {
    rep.set_replaying(true);
    let v: Value = serde_json::from_slice(&std::fs::read(path).expect("replay file")).expect("json");
    let seq: Vec<Act> = v["case"]["sequence"]
      .as_array()
      .expect("case.sequence")
      .iter()
      .map(|s| Act::from_name(s.as_str().unwrap_or("")).unwrap_or_else(|| vcore::ev::machinery_failure(&format!("unknown action {s}"))))
      .collect();
    let a = evaluate(&seq).failure;
    let b = evaluate(&seq).failure;
    if a.is_some() != b.is_some() {
      vcore::ev::machinery_failure("NONDETERMINISM on replay");
    }
    return match a {
      Some((sig, w)) => {
        println!("VIOLATION property=C23 replay={path}\n  signature: {}\n  what: {w}", sig.unwrap_or("-"));
        1
      }
      None => {
        println!("replay: no violation");
        0
      }
    };
  }

  let max_depth = if quick { 4 } else { 6 };
  let deadline = if quick { 30.0 } else { 840.0 };
  let mut visited: HashMap<Model, Vec<Act>> = HashMap::new();
  visited.insert(Model::default(), vec![]);
  let mut frontier: Vec<(Vec<Act>, Model)> = vec![(vec![], Model::default())];
  let mut transitions = 0u64;
  let mut nontrivial = 0u64;
  let mut failing_transitions = 0u64;
  let mut outcomes: HashSet<String> = HashSet::new();
  let mut depth_reached = 0;
  let mut cap_hit: Option<String> = None;
  let mut per_depth: Vec<Value> = Vec::new();
  for depth in 1..=max_depth {
    if frontier.is_empty() {
      break;
    }
    let jobs: Vec<(usize, Act)> = (0..frontier.len()).flat_map(|i| ALPHABET.iter().map(move |a| (i, *a))).collect();
    let results: Vec<Option<Eval>> = jobs
      .par_iter()
      .map(|(i, a)| {
        if rep.elapsed_s() > deadline {
          return None;
        }
        let mut seq = frontier[*i].0.clone();
        seq.push(*a);
        Some(evaluate(&seq))
      })
      .collect();
    let mut next: Vec<(Vec<Act>, Model)> = Vec::new();
    let mut done = 0u64;
    for ((i, a), res) in jobs.iter().zip(results) {
      let Some(ev) = res else {
        cap_hit = Some(format!("wall budget {deadline}s reached at depth {depth}"));
        continue;
      };
      done += 1;
      rep.eval();
      let mut seq = frontier[*i].0.clone();
      seq.push(*a);
      if let Some((_, st, et)) = ev.steps.last() {
        outcomes.insert(format!("{}:{}:{}", a.name().split('[').next().unwrap_or(""), st, et.clone().unwrap_or_default()));
      }
      // non-trivial: something acknowledged is pending or committed when the action is issued
      let pre = &frontier[*i].1;
      if !pre.queue.is_empty() || !pre.committed.is_empty() {
        nontrivial += 1;
      }
      match ev.failure {
        Some((sig, what)) => {
          failing_transitions += 1;
          outcomes.insert(format!("FAIL:{}", sig.unwrap_or("-")));
          rep.fail(sig, &what, case_json(&seq));
        }
        None => {
          if seq.len() >= 3 && ev.model.queue.len() >= 2 {
            rep.sample(json!({"sequence": seq_str(&seq), "statuses": ev.steps.iter().map(|s| s.1).collect::<Vec<_>>(), "model_after": ev.model.describe()}));
          }
          if !visited.contains_key(&ev.model) {
            visited.insert(ev.model.clone(), seq.clone());
            next.push((seq, ev.model));
          }
        }
      }
    }
    transitions += done;
    per_depth.push(json!({"depth": depth, "states_expanded": frontier.len(), "transitions": done, "new_states": next.len()}));
    if cap_hit.is_some() {
      break;
    }
    depth_reached = depth;
    frontier = next;
  }
  if outcomes.len() < 2 || !outcomes.iter().any(|o| o.contains(":200:")) || !outcomes.iter().any(|o| o.contains(":400:")) {
    vcore::ev::machinery_failure(&format!("C23 vacuous: observed outcomes {outcomes:?}"));
  }
  let mut oc: Vec<&String> = outcomes.iter().collect();
  oc.sort();
  let cov = vcore::cov! {
    "states" => visited.len(),
    "transitions" => transitions,
    "traces_validated_against_impl" => transitions,
    "max_depth" => depth_reached,
    "per_depth" => per_depth,
    "alphabet" => ALPHABET.iter().map(|a| a.name()).collect::<Vec<_>>(),
    "distinct_nontrivial" => nontrivial,
    "rule" => "BFS over request sequences (14-letter alphabet) from the freshly initialised index; state = (model queue, model committed contents), deduplicated; every (state, request) transition is replayed as a whole sequence on a fresh live server and followed by the probe search;commit;search. Oracle per step: 2xx write => its operations are appended to the model queue (and `queued` equals their number), non-2xx => queue unchanged; search == committed contents (ids + stored body); commit must succeed and then search == queue applied in order. A transition is non-trivial when acknowledged operations are pending or committed at the time the request is issued.",
    "failing_transitions" => failing_transitions,
    "distinct_observed_outcomes" => outcomes.len(),
    "observed_outcomes" => oc,
    "exhaustive" => cap_hit.is_none(),
    "cap_hit" => cap_hit,
  };
  rep.finish(
    cov,
    vec![
      "state equivalence is observational: two sequences with the same model state are merged if the probe (search, commit, search) agrees with the model".into(),
      "a match_all mismatch is only reported if it persists after POST /refresh (README: refresh optional 'depending on your staleness needs')".into(),
      "/bulk takes the documented JSON body {\"docs\":[..]} (openapi.yaml), not NDJSON".into(),
      "unknown document fields, ids with control characters and concurrent requests are outside this alphabet".into(),
    ],
  )
}
