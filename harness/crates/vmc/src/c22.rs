//! C22 — completion suggestions are consistent with the term dictionary.
//! Engine: inputmc suggest — every corpus of <= N small documents over the tokens
//! {ab, abc, abd, b, ba} x every assignment of the documents to commits (segment layouts, no
//! deletions) x every prefix of every token (+ a non-prefix, + an upper-case spelling) x size 1..3
//! x {no fuzzy, fuzzy max_edits {1,2} x prefix_length {0,1} x min_length {1,3}} (+ two fuzzy
//! requests with an explicit small scan cap, max_expansions 6 > the 5 indexed terms).
//!
//! Oracle, recomputed from the public analyzer's tokens of the documents: at most `size` options;
//! no duplicates; every option is an indexed term that starts with the analyzed prefix (fuzzy:
//! edit distance <= max_edits and sharing the first prefix_length characters); doc_freq = number of
//! documents containing the term; options ordered by score descending then text; two runs of the
//! same request agree; the size-s answer is the head of the size-3 answer; the answer is the same
//! (up to score tie classes, rel. tol. 1e-5) for every segment layout of the same corpus.
//! Completeness: whenever the typed text is at least min_length characters long (or no fuzzy
//! options are given), min(size, admissible terms) options are returned, and all admissible terms
//! when they fit into `size`. Edit distance is computed over *characters* (Levenshtein; a
//! transposition is additionally tolerated as one edit on the membership side only).
//! The score *value* is not pinned by the documentation and is only observed (coverage).
//!
//! Family M (run first): multi-byte slice. Tokens carry a 2-, 2-, 3- or 4-byte alphanumeric
//! character (é, я, 日, 𠮷) at their start, middle or end, together with their ASCII neighbours
//! (insertion / deletion / substitution of the multi-byte character, and of an ASCII character next
//! to it), so that (typed text, indexed term) pairs at character distance 0, 1, 2 have byte-length
//! differences of up to 7. Corpora: every single shape, every pair of shapes, and the whole
//! dictionary; typed texts: every token + an upper-case spelling, a trailing emoji (😀 is not
//! alphanumeric, so it never is part of a token), and two short stems; sizes {1, 2, covering}.

use std::collections::{BTreeMap, BTreeSet};
use std::sync::atomic::{AtomicBool, AtomicU64, Ordering};

use parking_lot::Mutex;
use rayon::prelude::*;
use searchlite_core::api::types::SearchRequest;
use serde_json::{json, Value};

use vcore::ev::Reporter;
use vcore::inp::*;
use vcore::world::*;

use crate::Ctx;

const TOKENS: [&str; 5] = ["ab", "abc", "abd", "b", "ba"];
const PREFIXES: [&str; 8] = ["a", "ab", "abc", "abd", "b", "ba", "c", "Ab"];
const MAX_SIZE: usize = 3;
/// covering size of family A (>= its 5 terms; not above the explicit scan cap 6 of its cap slice)
const A_COVERING_SIZE: usize = 6;
/// Family T (tie family): six terms sharing the prefix "ru"; every assignment of doc_freq 1 / 2.
const TIE_TOKENS: [&str; 6] = ["ruby", "rumba", "rune", "rural", "rust", "rut"];
/// typed texts of family T: the shared prefix, a shorter and a longer one, and three texts that are
/// 1..2 edits away from several terms at once
const TIE_PREFIXES: [&str; 6] = ["ru", "r", "rus", "rube", "rune", "rul"];
/// covering size of family M (>= its whole dictionary of 28 terms, < every scan cap)
const MB_COVERING_SIZE: usize = 30;

/// Genuine defect (collect_completion_candidates): both completion paths count every (segment,
/// matching term) pair against the scan cap and stop scanning the remaining segments once the
/// count is reached, so with far fewer distinct matching terms than the cap, doc_freq / score /
/// membership depend on the segment layout. Fuzzy path: cap = max(min(max_expansions, 256), size),
/// max_expansions defaulting to 50. Plain prefix path: cap = clamp(5 * size, 64, 256).
const SIG_CAP_FUZZY: &str = "C22-fuzzy-scan-cap-counts-segment-term-pairs";
const SIG_CAP_PREFIX: &str = "C22-prefix-scan-cap-counts-segment-term-pairs";
const DEFAULT_MAX_EXPANSIONS: usize = 50;
const PREFIX_SCAN_MIN: usize = 64;
/// family C: k copies of the document "ab abc", one per commit (and as one segment)
const MANY_SEGMENTS: std::ops::RangeInclusive<usize> = 24..=34;

#[derive(Clone, Debug, PartialEq)]
struct Fz {
  max_edits: usize,
  prefix_length: usize,
  min_length: usize,
  /// explicit max_expansions (None: library default 50, far above anything reachable here)
  max_expansions: Option<usize>,
}

#[derive(Clone, Debug)]
struct Spec {
  name: String,
  prefix: String,
  size: usize,
  fuzzy: Option<Fz>,
  /// index of the spec with the same prefix / fuzzy and size MAX_SIZE
  covering: usize,
}

impl Spec {
  fn to_json(&self) -> Value {
    let mut v = json!({"type": "completion", "field": "body", "prefix": self.prefix, "size": self.size});
    if let Some(f) = &self.fuzzy {
      let mut fz = json!({"max_edits": f.max_edits, "prefix_length": f.prefix_length, "min_length": f.min_length});
      if let Some(mx) = f.max_expansions {
        fz["max_expansions"] = json!(mx);
      }
      v["fuzzy"] = fz;
    }
    v
  }
}

fn fuzzy_configs(with_cap_slice: bool) -> Vec<Option<Fz>> {
  let mut out = vec![None];
  for me in [1usize, 2] {
    for pl in [0usize, 1] {
      for ml in [1usize, 3] {
        out.push(Some(Fz { max_edits: me, prefix_length: pl, min_length: ml, max_expansions: None }));
      }
    }
  }
  if with_cap_slice {
    // scan-cap slice: 5 indexed terms < cap 6
    out.push(Some(Fz { max_edits: 1, prefix_length: 0, min_length: 1, max_expansions: Some(6) }));
    out.push(Some(Fz { max_edits: 2, prefix_length: 0, min_length: 1, max_expansions: Some(6) }));
  }
  out
}

/// `sizes` ascending; the last one is the covering size of its (prefix, fuzzy) group.
fn specs(prefixes: &[String], sizes: &[usize], with_cap_slice: bool) -> Vec<Spec> {
  let mut out: Vec<Spec> = Vec::new();
  for (fi, fz) in fuzzy_configs(with_cap_slice).into_iter().enumerate() {
    for (pi, p) in prefixes.iter().enumerate() {
      let base = out.len();
      for size in sizes {
        out.push(Spec { name: format!("f{fi:02}p{pi:02}s{size:02}"), prefix: p.to_string(), size: *size, fuzzy: fz.clone(), covering: base + sizes.len() - 1 });
      }
    }
  }
  out
}

/// Family M: alphanumeric characters of 2, 2, 3 and 4 UTF-8 bytes.
const MB_CHARS: [&str; 4] = ["é", "я", "日", "𠮷"];

/// Family M tokens. For every multi-byte character X: X at the start / middle / end of the ASCII
/// stem "ab" (insertion or deletion of X relative to "ab", substitution relative to "acb" and to
/// one another), and ASCII edits next to X: "aXc" (substitution), "aXbc" (insertion), "aX"
/// (deletion). Two tokens are two multi-byte insertions away from "ab".
fn mb_tokens() -> Vec<String> {
  let mut out: Vec<String> = vec!["ab".into(), "acb".into()];
  for x in MB_CHARS {
    out.push(format!("{x}ab"));
    out.push(format!("a{x}b"));
    out.push(format!("ab{x}"));
    out.push(format!("a{x}c"));
    out.push(format!("a{x}bc"));
    out.push(format!("a{x}"));
  }
  out.push("aéяb".into());
  out.push("a日𠮷b".into());
  out
}

/// Family M typed texts: every token, an upper-case ASCII spelling, a trailing non-alphanumeric
/// 4-byte character (analyzes to "ab"), and two short stems that are no indexed term.
fn mb_prefixes() -> Vec<String> {
  let mut out = mb_tokens();
  out.extend(["Aéb", "ab😀", "a", "яb"].iter().map(|s| s.to_string()));
  out
}

/// Family M document shapes: one token per document, plus one document whose text contains an
/// emoji between two tokens.
fn mb_shapes() -> Vec<String> {
  let mut out = mb_tokens();
  out.push("ab😀 a日b".into());
  out
}

fn build_request(specs: &[Spec]) -> SearchRequest {
  let mut m = serde_json::Map::new();
  for s in specs {
    m.insert(s.name.clone(), s.to_json());
  }
  // README's suggest example uses "limit": 0, which IndexReader::search rejects ("must set limit > 0")
  req(json!({"query": {"type": "match_all"}, "limit": 1, "return_stored": false, "suggest": Value::Object(m)}))
}

/// Document shapes: one token, or an unordered pair of tokens (a repeated token included).
fn shapes() -> Vec<String> {
  let mut out: Vec<String> = TOKENS.iter().map(|t| t.to_string()).collect();
  for i in 0..TOKENS.len() {
    for j in i..TOKENS.len() {
      out.push(format!("{} {}", TOKENS[i], TOKENS[j]));
    }
  }
  out
}

#[derive(Clone, Debug, PartialEq)]
struct Opt {
  text: String,
  score: f32,
  df: u64,
}

type Resp = BTreeMap<String, Vec<Opt>>;

fn run_request(reader: &searchlite_core::api::IndexReader, r: &SearchRequest) -> Result<Resp, String> {
  let res = search_caught(reader, r)?;
  Ok(res.suggest.into_iter().map(|(k, v)| (k, v.options.into_iter().map(|o| Opt { text: o.text, score: o.score, df: o.doc_freq }).collect())).collect())
}

/// Optimal string alignment distance (Levenshtein + adjacent transposition). The documentation
/// does not say whether a transposition is one edit; the more lenient metric is used for the
/// membership demand so that either reading is accepted.
fn osa(a: &str, b: &str) -> usize {
  let a: Vec<char> = a.chars().collect();
  let b: Vec<char> = b.chars().collect();
  let (n, m) = (a.len(), b.len());
  let mut d = vec![vec![0usize; m + 1]; n + 1];
  for i in 0..=n {
    d[i][0] = i;
  }
  for j in 0..=m {
    d[0][j] = j;
  }
  for i in 1..=n {
    for j in 1..=m {
      let cost = if a[i - 1] == b[j - 1] { 0 } else { 1 };
      let mut v = (d[i - 1][j] + 1).min(d[i][j - 1] + 1).min(d[i - 1][j - 1] + cost);
      if i > 1 && j > 1 && a[i - 1] == b[j - 2] && a[i - 2] == b[j - 1] {
        v = v.min(d[i - 2][j - 2] + 1);
      }
      d[i][j] = v;
    }
  }
  d[n][m]
}

fn lev(a: &str, b: &str) -> usize {
  let a: Vec<char> = a.chars().collect();
  let b: Vec<char> = b.chars().collect();
  let mut prev: Vec<usize> = (0..=b.len()).collect();
  for i in 1..=a.len() {
    let mut cur = vec![i; b.len() + 1];
    for j in 1..=b.len() {
      let cost = if a[i - 1] == b[j - 1] { 0 } else { 1 };
      cur[j] = (prev[j] + 1).min(cur[j - 1] + 1).min(prev[j - 1] + cost);
    }
    prev = cur;
  }
  prev[b.len()]
}

fn char_prefix(s: &str, n: usize) -> String {
  s.chars().take(n).collect()
}

/// Is `term` an admissible option for the analyzed prefix `p` under `fz`?
fn admissible(p: &str, term: &str, fz: Option<&Fz>) -> bool {
  match fz {
    None => term.starts_with(p),
    Some(f) => osa(p, term) <= f.max_edits && term.starts_with(&char_prefix(p, f.prefix_length.min(p.chars().count()))),
  }
}

/// Must `term` be offered for the analyzed prefix `p` (given room)? Character-level Levenshtein
/// distance, exactly as the property states; a lower bound of `admissible`.
fn required_term(p: &str, term: &str, fz: Option<&Fz>) -> bool {
  match fz {
    None => term.starts_with(p),
    Some(f) => lev(p, term) <= f.max_edits && term.starts_with(&char_prefix(p, f.prefix_length.min(p.chars().count()))),
  }
}

/// Everything the oracle knows about one corpus (layout independent).
struct Corpus {
  /// shape index per doc, sorted
  shapes: Vec<usize>,
  /// term -> number of docs containing it
  df: BTreeMap<String, u64>,
}

struct Shared {
  shape_texts: Vec<String>,
  /// analyzer tokens (set) per shape
  shape_terms: Vec<BTreeSet<String>>,
  specs: Vec<Spec>,
  /// analyzed prefix per spec
  analyzed: Vec<String>,
  request: SearchRequest,
  /// the largest (covering) size of the family's requests
  max_size: usize,
  family: &'static str,
}

fn shared(family: &'static str) -> Shared {
  let sch = schema(schema_text_default());
  let an = sch.build_analyzers().expect("analyzers");
  let ia = an.index_analyzer("body").expect("index analyzer");
  let sa = an.search_analyzer("body").expect("search analyzer");
  let (shape_texts, specs, max_size) = if family == "T" {
    let sizes: Vec<usize> = (1..=TIE_TOKENS.len()).collect();
    let prefixes: Vec<String> = TIE_PREFIXES.iter().map(|s| s.to_string()).collect();
    (TIE_TOKENS.iter().map(|s| s.to_string()).collect(), specs(&prefixes, &sizes, false), TIE_TOKENS.len())
  } else if family == "M" {
    let sizes = [1, 2, MB_COVERING_SIZE];
    (mb_shapes(), specs(&mb_prefixes(), &sizes, false), MB_COVERING_SIZE)
  } else {
    let prefixes: Vec<String> = PREFIXES.iter().map(|s| s.to_string()).collect();
    // 1..=3 and a covering size (>= the 5 indexed terms)
    let mut sizes: Vec<usize> = (1..=MAX_SIZE).collect();
    sizes.push(A_COVERING_SIZE);
    (shapes(), specs(&prefixes, &sizes, true), A_COVERING_SIZE)
  };
  let shape_terms: Vec<BTreeSet<String>> = shape_texts.iter().map(|t| ia.analyze(t).into_iter().map(|t| t.text).collect()).collect();
  let nterms = shape_terms.iter().flatten().collect::<BTreeSet<_>>().len();
  if nterms > max_size {
    vcore::ev::machinery_failure("C22: a family's covering size is smaller than its dictionary");
  }
  // a typed text that analyzes to several tokens is outside the alphabet (docs are silent)
  for s in &specs {
    if sa.analyze(&s.prefix).len() > 1 {
      vcore::ev::machinery_failure(&format!("C22: typed text {:?} analyzes to more than one token", s.prefix));
    }
  }
  let analyzed = specs.iter().map(|s| sa.analyze(&s.prefix).last().map(|t| t.text.clone()).unwrap_or_else(|| s.prefix.clone())).collect();
  let request = build_request(&specs);
  Shared { shape_texts, shape_terms, specs, analyzed, request, max_size, family }
}

fn corpus_of(sh: &Shared, shapes: &[usize]) -> Corpus {
  let mut df = BTreeMap::new();
  for s in shapes {
    for t in &sh.shape_terms[*s] {
      *df.entry(t.clone()).or_insert(0u64) += 1;
    }
  }
  Corpus { shapes: shapes.to_vec(), df }
}

fn mk_world(sh: &Shared, order: &[usize], layout: &[usize]) -> World {
  let docs: Vec<Value> = order.iter().enumerate().map(|(i, s)| json!({"_id": id_of(i), "body": sh.shape_texts[*s]})).collect();
  World::new("text", schema_text_default(), docs).with_layout(layout.to_vec())
}

/// Distinct permutations of a sorted multiset.
fn permutations(items: &[usize]) -> Vec<Vec<usize>> {
  fn rec(rest: &mut Vec<usize>, cur: &mut Vec<usize>, out: &mut Vec<Vec<usize>>) {
    if rest.is_empty() {
      out.push(cur.clone());
      return;
    }
    let mut last = None;
    for i in 0..rest.len() {
      if Some(rest[i]) == last {
        continue;
      }
      last = Some(rest[i]);
      let x = rest.remove(i);
      cur.push(x);
      rec(rest, cur, out);
      cur.pop();
      rest.insert(i, x);
    }
  }
  let mut out = Vec::new();
  rec(&mut items.to_vec(), &mut Vec::new(), &mut out);
  out
}

/// All layouts of a corpus: ordered partitions of the documents into commits. The order of
/// documents inside one commit is not varied (each chunk is kept in non-decreasing shape order).
/// The first layout is the single-commit reference.
fn layouts_of(shapes: &[usize]) -> Vec<(Vec<usize>, Vec<usize>)> {
  let n = shapes.len();
  let mut out = Vec::new();
  for comp in compositions(n) {
    for perm in permutations(shapes) {
      let mut ok = true;
      let mut i = 0;
      for &k in &comp {
        if perm[i..i + k].windows(2).any(|w| w[0] > w[1]) {
          ok = false;
          break;
        }
        i += k;
      }
      if ok {
        out.push((perm, comp.clone()));
      }
    }
  }
  out
}

/// Run-length description of a list ("24 x \"ab abc\"").
fn rle<T: PartialEq + std::fmt::Debug>(items: &[T]) -> String {
  let mut parts = Vec::new();
  let mut i = 0;
  while i < items.len() {
    let mut j = i;
    while j < items.len() && items[j] == items[i] {
      j += 1;
    }
    if j - i > 2 {
      parts.push(format!("{} x {:?}", j - i, items[i]));
    } else {
      for x in &items[i..j] {
        parts.push(format!("{x:?}"));
      }
    }
    i = j;
  }
  format!("[{}]", parts.join(", "))
}

fn opts_str(o: &[Opt]) -> String {
  let parts: Vec<String> = o.iter().map(|x| format!("{}(score {}, doc_freq {})", x.text, x.score, x.df)).collect();
  format!("[{}]", parts.join(", "))
}

/// Tie-class tolerant equality of two option lists for the same request; `cover` is the
/// size-MAX_SIZE answer of the side `a` belongs to (only consulted when the texts differ).
fn same_options(a: &[Opt], b: &[Opt], cover: &[Opt]) -> bool {
  if a.len() != b.len() {
    return false;
  }
  for (x, y) in a.iter().zip(b) {
    if !approx(x.score, y.score, 1e-5) {
      return false;
    }
    if x.text == y.text {
      if x.df != y.df {
        return false;
      }
      continue;
    }
    // different text at this rank: only acceptable inside a score tie class of the covering list
    match cover.iter().find(|c| c.text == y.text) {
      Some(c) if c.df == y.df && approx(c.score, x.score, 1e-5) => {}
      _ => return false,
    }
  }
  true
}

/// Exact equality of two option lists of the same index (same texts in the same order, same
/// doc_freq; scores equal up to rel. 1e-5). Used where no float re-association can occur (second
/// run, truncation): there "score descending then text" is a total order and ties at the cut-off
/// must be broken by text.
fn same_exact(a: &[Opt], b: &[Opt]) -> bool {
  a.len() == b.len() && a.iter().zip(b).all(|(x, y)| x.text == y.text && x.df == y.df && approx(x.score, y.score, 1e-5))
}

struct SpecFail {
  spec: usize,
  sig: Option<&'static str>,
  what: String,
}

/// Number of (segment, admissible term) pairs in this layout, and of distinct admissible terms.
fn pair_count(sh: &Shared, order: &[usize], layout: &[usize], p: &str, fz: Option<&Fz>) -> (usize, usize) {
  // the code applies Levenshtein; for the classifier the pair count must mirror what is scanned
  let adm = |t: &str| match fz {
    None => t.starts_with(p),
    Some(f) => lev(p, t) <= f.max_edits && t.starts_with(&char_prefix(p, f.prefix_length.min(p.chars().count()))),
  };
  let mut pairs = 0;
  let mut all = BTreeSet::new();
  let mut i = 0;
  for &k in layout {
    let mut seg: BTreeSet<&String> = BTreeSet::new();
    for s in &order[i..i + k] {
      seg.extend(sh.shape_terms[*s].iter());
    }
    for t in seg {
      if adm(t) {
        pairs += 1;
        all.insert(t.clone());
      }
    }
    i += k;
  }
  (pairs, all.len())
}

#[derive(Default)]
struct Stats {
  nontrivial: u64,
  incomplete: u64,
  score_model_disagree: u64,
  /// cases whose required set holds a term whose byte length differs from the typed text's by
  /// more than max_edits (character distance <= max_edits): byte/char confusions show here
  byte_vs_char: u64,
  /// cases whose size cuts the covering answer between two options of exactly equal score
  tie_at_cut: u64,
  listings: BTreeSet<String>,
}

/// Judge one world's responses. `only`: restrict to one spec (replay).
#[allow(clippy::too_many_arguments)]
fn judge(sh: &Shared, corpus: &Corpus, order: &[usize], layout: &[usize], resp: &Resp, resp2: &Resp, reference: Option<&Resp>, only: Option<usize>, stats: &mut Stats) -> Vec<SpecFail> {
  let mut fails = Vec::new();
  let empty: Vec<Opt> = Vec::new();
  for (si, spec) in sh.specs.iter().enumerate() {
    if only.is_some_and(|o| o != si) {
      continue;
    }
    let p = sh.analyzed[si].as_str();
    let fz = spec.fuzzy.as_ref();
    let Some(o) = resp.get(&spec.name) else {
      fails.push(SpecFail { spec: si, sig: None, what: "the response has no entry for this suggest request".into() });
      continue;
    };
    // classifier for the scan-cap defect: fewer distinct matching terms than the cap, but this
    // layout has more (segment, matching term) pairs than the effective cap, so the scan stops
    // before the last segments
    let cap_sig = || -> Option<&'static str> {
      let (eff, sig) = match fz {
        None => ((5 * sh.max_size).max(PREFIX_SCAN_MIN), SIG_CAP_PREFIX),
        Some(f) => {
          if p.chars().count() < f.min_length {
            return None;
          }
          (f.max_expansions.unwrap_or(DEFAULT_MAX_EXPANSIONS).max(sh.max_size), SIG_CAP_FUZZY)
        }
      };
      let (pairs, terms) = pair_count(sh, order, layout, p, fz);
      if terms < eff && pairs > eff {
        Some(sig)
      } else {
        None
      }
    };
    let candidates: Vec<&String> = corpus.df.keys().filter(|t| admissible(p, t, fz)).collect();
    let mut bad: Option<String> = None;
    if o.len() > spec.size {
      bad = Some(format!("{} options returned for size {}", o.len(), spec.size));
    }
    if bad.is_none() {
      let mut seen = BTreeSet::new();
      for x in o {
        if !seen.insert(&x.text) {
          bad = Some(format!("option {:?} appears twice", x.text));
          break;
        }
        let Some(df) = corpus.df.get(&x.text) else {
          bad = Some(format!("option {:?} is not an indexed term of the field (terms {:?})", x.text, corpus.df.keys().collect::<Vec<_>>()));
          break;
        };
        if !admissible(p, &x.text, fz) {
          bad = Some(match fz {
            None => format!("option {:?} does not start with the analyzed prefix {p:?}", x.text),
            Some(f) => format!("option {:?} is not within {} edits of {p:?} sharing its first {} characters", x.text, f.max_edits, f.prefix_length),
          });
          break;
        }
        if x.df != *df {
          bad = Some(format!("option {:?} has doc_freq {} but {} of the {} documents contain the term", x.text, x.df, df, corpus.shapes.len()));
          break;
        }
        if !x.score.is_finite() {
          bad = Some(format!("option {:?} has a non-finite score {}", x.text, x.score));
          break;
        }
      }
    }
    if bad.is_none() {
      for w in o.windows(2) {
        if w[1].score > w[0].score || (w[1].score == w[0].score && w[1].text <= w[0].text) {
          bad = Some("options are not ordered by score descending then text".into());
          break;
        }
      }
    }
    // completeness: demanded when no fuzzy options are given or the typed text has at least
    // min_length characters (what a shorter text yields is not documented)
    let demand_complete = fz.map_or(true, |f| p.chars().count() >= f.min_length);
    if demand_complete {
      let required: Vec<&String> = corpus.df.keys().filter(|t| required_term(p, t, fz)).collect();
      if required.iter().any(|t| t.len().abs_diff(p.len()) > fz.map_or(usize::MAX, |f| f.max_edits)) {
        stats.byte_vs_char += 1;
      }
      if bad.is_none() {
        let missing: Vec<String> = required
          .iter()
          .filter(|t| !o.iter().any(|x| &x.text == **t))
          .map(|t| match fz {
            None => format!("{t:?}"),
            Some(_) => format!("{t:?} ({} character edit(s) from {p:?}; {} vs {} bytes)", lev(p, t), t.len(), p.len()),
          })
          .collect();
        if o.len() < spec.size.min(required.len()) {
          bad = Some(format!("only {} option(s) for size {} although {} indexed terms qualify; missing: {}", o.len(), spec.size, required.len(), missing.join(", ")));
        } else if candidates.len() <= spec.size && !missing.is_empty() {
          bad = Some(format!("all {} qualifying indexed terms fit into size {} but these are missing: {}", required.len(), spec.size, missing.join(", ")));
        }
      }
    }
    if bad.is_none() {
      let o2 = resp2.get(&spec.name).unwrap_or(&empty);
      if !same_exact(o, o2) {
        bad = Some(format!("a second run of the same request on the same reader returned {}", opts_str(o2)));
      }
    }
    if bad.is_none() && spec.size < sh.max_size {
      let cover = resp.get(&sh.specs[spec.covering].name).unwrap_or(&empty);
      let head = &cover[..cover.len().min(spec.size)];
      if spec.size < cover.len() && cover[spec.size - 1].score == cover[spec.size].score {
        stats.tie_at_cut += 1;
      }
      if !same_exact(head, o) {
        bad = Some(format!("it is not the first {} of the size {} answer {} of the same index (ties at the cut-off are broken by text ascending)", spec.size, sh.max_size, opts_str(cover)));
      }
    }
    let mut sig = None;
    if bad.is_some() {
      sig = cap_sig();
    }
    if bad.is_none() {
      if let Some(r) = reference {
        let ro = r.get(&spec.name).unwrap_or(&empty);
        let rcover = r.get(&sh.specs[spec.covering].name).unwrap_or(&empty);
        if !same_options(ro, o, rcover) {
          bad = Some(format!("the same corpus committed as one segment answers {}", opts_str(ro)));
          sig = cap_sig();
        }
      }
    }
    // observations (never deciding)
    if !o.is_empty() && !candidates.is_empty() && candidates.len() < corpus.df.len() {
      stats.nontrivial += 1;
    }
    if !demand_complete && o.len() < spec.size.min(candidates.len()) {
      stats.incomplete += 1;
    }
    if bad.is_none() {
      for x in o {
        let df = corpus.df[&x.text] as f32;
        let model = match fz {
          None => df,
          Some(_) => df / (lev(p, &x.text) as f32 + 1.0),
        };
        if !approx(model, x.score, 1e-5) {
          stats.score_model_disagree += 1;
          break;
        }
      }
    }
    if stats.listings.len() < 4096 {
      stats.listings.insert(o.iter().map(|x| format!("{}:{}", x.text, x.df)).collect::<Vec<_>>().join(","));
    }
    if let Some(b) = bad {
      fails.push(SpecFail { spec: si, sig, what: format!("{} -> {}: {}", spec.to_json(), opts_str(o), b) });
    }
  }
  fails
}

fn case_json(sh: &Shared, order: &[usize], layout: &[usize], spec: usize) -> Value {
  json!({"engine": "inputmc-suggest", "family": sh.family, "world": mk_world(sh, order, layout).to_json(), "shape_order": order, "layout": layout, "spec": spec, "suggest": sh.specs[spec].to_json()})
}

struct Failure {
  /// (family rank, corpus, world, spec): reporting order, simplest first
  key: (usize, usize, usize, usize),
  fam: usize,
  sig: Option<&'static str>,
  order: Vec<usize>,
  layout: Vec<usize>,
  spec: usize,
  what: String,
}

/// One corpus and the layouts to run it in (None: every layout, `layouts_of`).
struct Job {
  shapes: Vec<usize>,
  lays: Option<Vec<(Vec<usize>, Vec<usize>)>>,
  /// failures of this job are always stored individually
  early: bool,
  /// position in the reporting order
  rank: usize,
}

#[derive(Default)]
struct Acc {
  worlds: AtomicU64,
  evals: AtomicU64,
  nontrivial: AtomicU64,
  incomplete: AtomicU64,
  score_disagree: AtomicU64,
  byte_vs_char: AtomicU64,
  tie_at_cut: AtomicU64,
  multi_segment_worlds: AtomicU64,
  listings: Mutex<BTreeSet<String>>,
  failures: Mutex<Vec<Failure>>,
  stored: AtomicU64,
  dropped: Mutex<BTreeMap<Option<&'static str>, u64>>,
  timed_out: AtomicBool,
}

/// memory bound: failures are kept individually for early jobs, anything unexplained, and up to
/// STORE_CAP overall; the rest is only counted per class
const STORE_CAP: u64 = 20_000;

fn explore(rep: &Reporter, sh: &Shared, fam: usize, jobs: &[Job], acc: &Acc, deadline: f64) {
  let nspecs = sh.specs.len() as u64;
  jobs.par_iter().for_each(|job| {
    if rep.elapsed_s() > deadline {
      acc.timed_out.store(true, Ordering::Relaxed);
      return;
    }
    let shapes = &job.shapes;
    let corpus = corpus_of(sh, shapes);
    let mut st = Stats::default();
    let mut reference: Option<Resp> = None;
    let lays = job.lays.clone().unwrap_or_else(|| layouts_of(shapes));
    for (wi, (order, layout)) in lays.into_iter().enumerate() {
      let idx = mk_world(sh, &order, &layout).build();
      let reader = idx.reader().expect("reader");
      acc.worlds.fetch_add(1, Ordering::Relaxed);
      if layout.len() > 1 {
        acc.multi_segment_worlds.fetch_add(1, Ordering::Relaxed);
      }
      let (a, b) = match (run_request(&reader, &sh.request), run_request(&reader, &sh.request)) {
        (Ok(a), Ok(b)) => (a, b),
        (Err(e), _) | (_, Err(e)) => {
          acc.failures.lock().push(Failure { key: (fam, job.rank, wi, 0), fam, sig: None, order, layout, spec: 0, what: format!("the batched suggest request failed: {e}") });
          continue;
        }
      };
      acc.evals.fetch_add(nspecs, Ordering::Relaxed);
      let fs = judge(sh, &corpus, &order, &layout, &a, &b, reference.as_ref(), None, &mut st);
      if !fs.is_empty() {
        for f in fs {
          if f.sig.is_none() || job.early || acc.stored.load(Ordering::Relaxed) < STORE_CAP {
            acc.stored.fetch_add(1, Ordering::Relaxed);
            acc.failures.lock().push(Failure { key: (fam, job.rank, wi, f.spec), fam, sig: f.sig, order: order.clone(), layout: layout.clone(), spec: f.spec, what: f.what });
          } else {
            *acc.dropped.lock().entry(f.sig).or_insert(0) += 1;
          }
        }
      } else if layout.len() > 1 && !rep.sample_full() {
        let s = &sh.specs[sh.specs.len() / 2];
        rep.sample(json!({"family": sh.family, "docs": order.iter().map(|s| sh.shape_texts[*s].clone()).collect::<Vec<_>>(), "layout": layout, "suggest": s.to_json(),
          "options": a.get(&s.name).map(|o| opts_str(o))}));
      }
      if wi == 0 {
        reference = Some(a);
      }
    }
    acc.nontrivial.fetch_add(st.nontrivial, Ordering::Relaxed);
    acc.incomplete.fetch_add(st.incomplete, Ordering::Relaxed);
    acc.score_disagree.fetch_add(st.score_model_disagree, Ordering::Relaxed);
    acc.byte_vs_char.fetch_add(st.byte_vs_char, Ordering::Relaxed);
    acc.tie_at_cut.fetch_add(st.tie_at_cut, Ordering::Relaxed);
    let mut l = acc.listings.lock();
    if l.len() < 4096 {
      l.extend(st.listings);
    }
  });
}

/// Family M jobs: every single shape, every pair of shapes, and the whole dictionary (token i in
/// 1 + i % 3 documents); each as one segment and one document per segment (the dictionary also in
/// three chunks).
fn mb_jobs(sh: &Shared) -> Vec<Job> {
  let n = sh.shape_texts.len();
  let mut jobs = Vec::new();
  let two = |shapes: &Vec<usize>| vec![(shapes.clone(), vec![shapes.len()]), (shapes.clone(), vec![1; shapes.len()])];
  for i in 0..n {
    let shapes = vec![i];
    jobs.push(Job { lays: Some(vec![(shapes.clone(), vec![1])]), shapes, early: true, rank: 0 });
  }
  for i in 0..n {
    for j in i + 1..n {
      let shapes = vec![i, j];
      jobs.push(Job { lays: Some(two(&shapes)), shapes, early: true, rank: 0 });
    }
  }
  let mut dict = Vec::new();
  for i in 0..n {
    for _ in 0..1 + i % 3 {
      dict.push(i);
    }
  }
  let mut lays = two(&dict);
  let third = dict.len() / 3;
  lays.push((dict.clone(), vec![third, third, dict.len() - 2 * third]));
  jobs.push(Job { shapes: dict, lays: Some(lays), early: true, rank: 0 });
  for (r, j) in jobs.iter_mut().enumerate() {
    j.rank = r;
  }
  jobs
}

/// Family T jobs: every assignment of doc_freq in {1, 2} to the six terms, as one segment and as
/// one document per segment.
fn tie_jobs() -> Vec<Job> {
  let n = TIE_TOKENS.len();
  let mut jobs = Vec::new();
  for mask in 0..(1usize << n) {
    let mut shapes = Vec::new();
    for i in 0..n {
      shapes.push(i);
      if mask & (1 << i) != 0 {
        shapes.push(i);
      }
    }
    let lays = vec![(shapes.clone(), vec![shapes.len()]), (shapes.clone(), vec![1; shapes.len()])];
    jobs.push(Job { shapes, lays: Some(lays), early: true, rank: mask });
  }
  jobs
}

/// (typed text, indexed term) pairs of family M by character distance, and how many of them have
/// a byte-length difference larger than the character distance allows for max_edits 1 / 2.
fn mb_pair_stats(sh: &Shared) -> Value {
  let terms: BTreeSet<&String> = sh.shape_terms.iter().flatten().collect();
  let typed: BTreeSet<&String> = sh.analyzed.iter().collect();
  let mut by_dist: BTreeMap<String, u64> = BTreeMap::new();
  let mut byte_gap: BTreeMap<String, u64> = BTreeMap::new();
  let mut max_gap = 0;
  for p in &typed {
    for t in &terms {
      let d = lev(p, t);
      if d <= 2 {
        *by_dist.entry(format!("distance_{d}")).or_insert(0) += 1;
        let gap = p.len().abs_diff(t.len());
        max_gap = max_gap.max(gap);
        for me in [1usize, 2] {
          if d <= me && gap > me {
            *byte_gap.entry(format!("within_{me}_edits_but_byte_lengths_differ_by_more")).or_insert(0) += 1;
          }
        }
      }
    }
  }
  json!({"typed_texts": typed.len(), "indexed_terms": terms.len(), "pairs_by_character_distance": by_dist, "pairs": byte_gap, "largest_byte_length_difference_within_2_edits": max_gap})
}

pub fn run(ctx: &Ctx) -> i32 {
  let mut rep = Reporter::new("C22", ctx.tier, "exploration");
  let quick = ctx.tier.is_quick();
  // families in reporting / execution order: M (multi-byte slice), A (ASCII corpora x layouts), C
  let fams: [Shared; 3] = [shared("T"), shared("M"), shared("A")];
  if let Some(path) = &ctx.replay {
    rep.set_replaying(true);
    let v: Value = serde_json::from_slice(&std::fs::read(path).expect("replay file")).expect("json");
    let cs = &v["case"];
    let sh = if cs["family"] == "T" { &fams[0] } else if cs["family"] == "M" { &fams[1] } else { &fams[2] };
    let order: Vec<usize> = cs["shape_order"].as_array().expect("shape_order").iter().map(|x| x.as_u64().unwrap() as usize).collect();
    let layout: Vec<usize> = cs["layout"].as_array().expect("layout").iter().map(|x| x.as_u64().unwrap() as usize).collect();
    let spec = cs["spec"].as_u64().expect("spec") as usize;
    let mut sorted = order.clone();
    sorted.sort();
    let corpus = corpus_of(sh, &sorted);
    let run = || {
      let ref_idx = mk_world(sh, &sorted, &[sorted.len()]).build();
      let ref_resp = run_request(&ref_idx.reader().expect("reader"), &sh.request).expect("reference request");
      let idx = mk_world(sh, &order, &layout).build();
      let reader = idx.reader().expect("reader");
      let (a, b) = match (run_request(&reader, &sh.request), run_request(&reader, &sh.request)) {
        (Ok(a), Ok(b)) => (a, b),
        (Err(e), _) | (_, Err(e)) => return Some(format!("request failed: {e}")),
      };
      let mut st = Stats::default();
      judge(sh, &corpus, &order, &layout, &a, &b, Some(&ref_resp), Some(spec), &mut st).into_iter().next().map(|f| f.what)
    };
    let (a, b) = (run(), run());
    if a.is_some() != b.is_some() {
      vcore::ev::machinery_failure("NONDETERMINISM on replay");
    }
    return match a {
      Some(w) => {
        println!("VIOLATION property=C22 replay={path}\n  what: {w}");
        1
      }
      None => {
        println!("replay: no violation");
        0
      }
    };
  }

  let deadline = if quick { 35.0 } else { 800.0 };
  let acc = Acc::default();

  // ---- families T and M first: a wall budget cannot skip them
  let t_jobs = tie_jobs();
  explore(&rep, &fams[0], 0, &t_jobs, &acc, deadline);
  let t_worlds = acc.worlds.load(Ordering::Relaxed);
  let t_cases = acc.evals.load(Ordering::Relaxed);
  let t_tie_at_cut = acc.tie_at_cut.load(Ordering::Relaxed);
  let t_wall = rep.elapsed_s();
  let m_jobs = mb_jobs(&fams[1]);
  explore(&rep, &fams[1], 1, &m_jobs, &acc, deadline);
  let m_worlds = acc.worlds.load(Ordering::Relaxed) - t_worlds;
  let m_cases = acc.evals.load(Ordering::Relaxed) - t_cases;
  let m_byte_vs_char = acc.byte_vs_char.load(Ordering::Relaxed);
  let m_nontrivial = acc.nontrivial.load(Ordering::Relaxed);
  let m_wall = rep.elapsed_s() - t_wall;

  // ---- family C (many segments), then family A simplest first
  let sh = &fams[2];
  let max_docs = if quick { 3 } else { 4 };
  let nshapes = sh.shape_texts.len();
  let many_shape = sh.shape_texts.iter().position(|t| t == "ab abc").expect("shape");
  let mut jobs: Vec<Job> = Vec::new();
  for k in MANY_SEGMENTS {
    let shapes = vec![many_shape; k];
    // failures of family C sort after those of family A (their worlds are larger)
    jobs.push(Job { lays: Some(vec![(shapes.clone(), vec![k]), (shapes.clone(), vec![1; k])]), shapes, early: true, rank: 1_000_000 + k });
  }
  let family_c = jobs.len();
  let mut n4_seen = 0;
  for n in 1..=max_docs {
    for shapes in multisets(nshapes, n) {
      // (the first 1200 corpora of the 4-document layer are always kept so that the reported
      // minimal witness does not depend on scheduling)
      let early = n <= 3 || n4_seen < 1200;
      if n == 4 {
        n4_seen += 1;
      }
      let rank = jobs.len();
      jobs.push(Job { shapes, lays: None, early, rank });
    }
  }
  explore(&rep, sh, 2, &jobs, &acc, deadline);
  rep.add_evals(acc.evals.load(Ordering::Relaxed));

  let mut fails = std::mem::take(&mut *acc.failures.lock());
  fails.sort_by(|a, b| a.key.cmp(&b.key));
  let mut by_sig: BTreeMap<String, u64> = BTreeMap::new();
  let mut first_of_sig: BTreeMap<String, Value> = BTreeMap::new();
  for (i, f) in fails.iter().enumerate() {
    let fsh = &fams[f.fam];
    let label = f.sig.unwrap_or("unexplained").to_string();
    *by_sig.entry(label.clone()).or_insert(0) += 1;
    let docs: Vec<&str> = f.order.iter().map(|s| fsh.shape_texts[*s].as_str()).collect();
    let what = format!("docs {} committed in chunks {}: {}", rle(&docs), rle(&f.layout), f.what);
    let first = !first_of_sig.contains_key(&label);
    if first {
      first_of_sig.insert(label, json!({"docs": rle(&docs), "layout": rle(&f.layout), "what": f.what}));
    }
    let cj = if i < 64 || first { case_json(fsh, &f.order, &f.layout, f.spec) } else { Value::Null };
    rep.fail(f.sig, &what, cj);
  }
  for (sig, n) in acc.dropped.lock().iter() {
    *by_sig.entry(sig.unwrap_or("unexplained").to_string()).or_insert(0) += n;
    for _ in 0..*n {
      rep.fail(*sig, "further case of the same class (counted, not stored individually)", Value::Null);
    }
  }

  let to = acc.timed_out.load(Ordering::Relaxed);
  let nl = acc.listings.lock().len();
  if nl < 2 {
    vcore::ev::machinery_failure("C22: fewer than 2 distinct outcomes observed (vacuous)");
  }
  if t_tie_at_cut == 0 {
    vcore::ev::machinery_failure("C22: family T has no case with a score tie straddling the cut-off (vacuous)");
  }
  if m_byte_vs_char == 0 {
    vcore::ev::machinery_failure("C22: family M has no case separating byte length from character count (vacuous)");
  }
  let cov = vcore::cov! {
    "distinct_nontrivial" => acc.nontrivial.load(Ordering::Relaxed),
    "rule" => "Family T (first): 6 terms sharing the prefix ru {ruby, rumba, rune, rural, rust, rut}, one token per document, every assignment of doc_freq 1 or 2 to the terms (64 corpora), each as one segment and one document per segment; cases = world x 6 typed texts {ru, r, rus, rube, rune, rul} x size 1..6 (6 = covering) x 9 fuzzy settings (none; max_edits {1,2} x prefix_length {0,1} x min_length {1,3}), each run twice; the size-s answer must be exactly the first s options of the covering answer, whose order (score descending, exactly equal scores by text ascending) is checked on the returned values. Family M: 29 document shapes = 28 tokens carrying é / я / 日 / 𠮷 (2, 2, 3, 4 UTF-8 bytes) at the start, middle or end of the stem ab, their ASCII neighbours (ab, acb, aXc, aXbc, aX) and two double insertions, + one document with an emoji between two tokens; corpora = every single shape, every pair of shapes, the whole dictionary (token i in 1 + i % 3 documents), each as one segment and one document per segment (dictionary also in 3 chunks); cases = world x 32 typed texts (every token, Aéb, ab😀, a, яb) x size {1, 2, 30 (covering)} x 9 fuzzy settings (none; max_edits {1,2} x prefix_length {0,1} x min_length {1,3}), each run twice. Family A: corpora = every multiset of 1..=N documents over 20 shapes (one token, or an unordered pair incl. a repeated token, over {ab, abc, abd, b, ba}); worlds = corpus x every ordered partition of its documents into commits (document order inside one commit not varied), no deletions; cases = world x 8 prefixes {a, ab, abc, abd, b, ba, c (non-prefix), Ab (upper-case)} x size {1, 2, 3, 6 (covering)} x 11 fuzzy settings (none; max_edits {1,2} x prefix_length {0,1} x min_length {1,3}; max_edits {1,2} with max_expansions 6), each case run twice. Family C: k = 24..=34 copies of the document \"ab abc\" committed one per segment vs. as one segment, family A requests (2k (segment, term) pairs cross the default fuzzy cap 50 at k = 26 and the prefix scan cap 64 at k = 33 while only 2 terms match). A case is non-trivial when it returns at least one option and the admissible terms are a non-empty proper subset of the indexed terms.",
    "family_t" => json!({
      "corpora": t_jobs.len(), "worlds": t_worlds, "requests_per_world": fams[0].specs.len(), "cases": t_cases,
      "cases_with_a_score_tie_straddling_the_cut_off": t_tie_at_cut, "wall_s": t_wall,
    }),
    "cases_with_a_score_tie_straddling_the_cut_off" => acc.tie_at_cut.load(Ordering::Relaxed),
    "family_m" => json!({
      "corpora": m_jobs.len(), "worlds": m_worlds, "requests_per_world": fams[1].specs.len(), "cases": m_cases, "nontrivial_cases": m_nontrivial,
      "cases_requiring_a_term_whose_byte_length_differs_by_more_than_max_edits": m_byte_vs_char,
      "typed_text_x_term_pairs": mb_pair_stats(&fams[1]), "wall_s": m_wall,
    }),
    "max_docs" => max_docs,
    "corpora" => jobs.len() + m_jobs.len() + t_jobs.len(),
    "family_c_corpora" => family_c,
    "worlds" => acc.worlds.load(Ordering::Relaxed),
    "multi_segment_worlds" => acc.multi_segment_worlds.load(Ordering::Relaxed),
    "requests_per_world" => sh.specs.len(),
    "cases_requiring_a_term_whose_byte_length_differs_by_more_than_max_edits" => acc.byte_vs_char.load(Ordering::Relaxed),
    "cases_below_min_length_with_fewer_options_than_min_size_admissible_terms" => acc.incomplete.load(Ordering::Relaxed),
    "cases_whose_scores_differ_from_df_times_1_over_distance_plus_1" => acc.score_disagree.load(Ordering::Relaxed),
    "distinct_observed_outcomes" => nl,
    "failures_by_signature" => by_sig,
    "first_witness_by_signature" => first_of_sig,
    "cap_hit" => if to { Some(format!("wall budget {deadline}s")) } else { None },
    "exhaustive" => !to,
  };
  rep.finish(
    cov,
    vec![
      "the score value is not defined by README/docs (its example shows score 42.0 for doc_freq 3); only ordering, determinism, truncation- and layout-consistency of scores are demanded; agreement with df/(distance+1) is reported as coverage".into(),
      "completeness is demanded (min(size, qualifying terms) options; all qualifying terms when they fit) except for fuzzy requests whose typed text has fewer than min_length characters: what those return is not documented (the code returns nothing); counted in coverage".into(),
      "edit distance is character-level Levenshtein for what must be offered; on the membership side a transposition is additionally accepted as one edit (docs do not say which edit distance)".into(),
      "the empty prefix, typed texts that analyze to several tokens, keyword fields, deletions and the non-fuzzy scan cap (>= 64 entries) are left out".into(),
      "max_expansions is only varied as 6 (> the 5 indexed terms of family A) or left at its default 50 (> the 28 terms of family M): every case has fewer qualifying terms than the scan cap".into(),
      "only ASCII letters are case-folded by the default analyzer; upper-case non-ASCII typed text is left out".into(),
    ],
  )
}
