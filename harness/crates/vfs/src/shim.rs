//! fsshim: libc interposition. The executable defines the libc entry points std uses for file
//! I/O; the dynamic linker binds std's calls to these definitions, which forward to the real
//! implementation (dlsym RTLD_NEXT) and, for paths under a registered *session root*, append the
//! operation (with data) to that session's log, or inject a fault.
//!
//! Sessions make the shim usable from many worker threads at once: every execution owns a
//! private scratch root, and an operation belongs to the session whose root is a prefix of its
//! path (file-descriptor operations are attributed through the fd table filled at open time).

#![allow(clippy::missing_safety_doc)]

use std::collections::HashMap;
use std::ffi::{CStr, CString};
use std::os::raw::{c_char, c_int, c_uint, c_void};
use std::sync::atomic::{AtomicBool, AtomicUsize, Ordering};

use parking_lot::Mutex;

#[derive(Debug, Clone, PartialEq, Eq)]
pub enum FsOp {
  /// open of a regular path (flags decoded)
  Open { fd: i32, path: String, creat: bool, trunc: bool, append: bool, write: bool, existed: bool, dir: bool },
  Write { fd: i32, offset: Option<u64>, data: Vec<u8> },
  Truncate { fd: i32, len: u64 },
  Fsync { fd: i32 },
  Close { fd: i32 },
  Rename { from: String, to: String },
  Unlink { path: String },
  Mkdir { path: String },
  Rmdir { path: String },
  /// read-only path access (stat/access/open for read): used by C28 and read-set checks
  Access { path: String, how: &'static str },
  /// driver marker
  Marker { text: String },
}

impl FsOp {
  pub fn mutating(&self) -> bool {
    !matches!(self, FsOp::Access { .. } | FsOp::Marker { .. } | FsOp::Close { .. })
      && !matches!(self, FsOp::Open { creat: false, trunc: false, .. })
  }
  pub fn brief(&self) -> String {
    let base = |p: &str| p.rsplit('/').next().unwrap_or(p).to_string();
    match self {
      FsOp::Open { fd, path, creat, trunc, append, dir, .. } => format!(
        "open({}{}{}{}{})={fd}",
        base(path),
        if *creat { ",creat" } else { "" },
        if *trunc { ",trunc" } else { "" },
        if *append { ",append" } else { "" },
        if *dir { ",dir" } else { "" }
      ),
      FsOp::Write { fd, offset, data } => format!("write(fd{fd},off={offset:?},len={})", data.len()),
      FsOp::Truncate { fd, len } => format!("ftruncate(fd{fd},{len})"),
      FsOp::Fsync { fd } => format!("fsync(fd{fd})"),
      FsOp::Close { fd } => format!("close(fd{fd})"),
      FsOp::Rename { from, to } => format!("rename({}->{})", base(from), base(to)),
      FsOp::Unlink { path } => format!("unlink({})", base(path)),
      FsOp::Mkdir { path } => format!("mkdir({})", base(path)),
      FsOp::Rmdir { path } => format!("rmdir({})", base(path)),
      FsOp::Access { path, how } => format!("{how}({})", base(path)),
      FsOp::Marker { text } => format!("# {text}"),
    }
  }
}

#[derive(Debug, Clone, Copy, PartialEq, Eq)]
pub enum FaultMode {
  /// fail without performing the call
  Before,
  /// perform the call, then report failure
  After,
}

pub struct Session {
  pub root: String,
  pub log: Vec<FsOp>,
  pub record: bool,
  pub record_access: bool,
  /// inject EIO at the n-th (0-based) mutating call
  pub fault_at: Option<(usize, FaultMode)>,
  pub mutating_seen: usize,
  pub fault_fired: bool,
}

struct Global {
  sessions: Vec<Option<Session>>,
  fds: HashMap<i32, (usize, String)>,
}

static ACTIVE: AtomicUsize = AtomicUsize::new(0); // number of live sessions; 0 => pure pass-through
static INIT: AtomicBool = AtomicBool::new(false);
static GLOBAL: Mutex<Option<Global>> = Mutex::new(None);

fn with_global<T>(f: impl FnOnce(&mut Global) -> T) -> T {
  let mut g = GLOBAL.lock();
  if g.is_none() {
    *g = Some(Global { sessions: Vec::new(), fds: HashMap::new() });
    INIT.store(true, Ordering::SeqCst);
  }
  f(g.as_mut().unwrap())
}

pub fn session_start(root: &str, record_access: bool) -> usize {
  let id = with_global(|g| {
    let s = Session {
      root: root.trim_end_matches('/').to_string(),
      log: Vec::new(),
      record: true,
      record_access,
      fault_at: None,
      mutating_seen: 0,
      fault_fired: false,
    };
    if let Some(i) = g.sessions.iter().position(|x| x.is_none()) {
      g.sessions[i] = Some(s);
      i
    } else {
      g.sessions.push(Some(s));
      g.sessions.len() - 1
    }
  });
  ACTIVE.fetch_add(1, Ordering::SeqCst);
  id
}

pub fn session_end(id: usize) -> Session {
  let s = with_global(|g| {
    g.fds.retain(|_, v| v.0 != id);
    g.sessions[id].take().expect("session")
  });
  ACTIVE.fetch_sub(1, Ordering::SeqCst);
  s
}

pub fn session_marker(id: usize, text: &str) {
  with_global(|g| {
    if let Some(Some(s)) = g.sessions.get_mut(id) {
      s.log.push(FsOp::Marker { text: text.to_string() });
    }
  })
}

pub fn session_log_len(id: usize) -> usize {
  with_global(|g| g.sessions[id].as_ref().map(|s| s.log.len()).unwrap_or(0))
}

pub fn session_take_log(id: usize) -> Vec<FsOp> {
  with_global(|g| g.sessions[id].as_mut().map(|s| std::mem::take(&mut s.log)).unwrap_or_default())
}

pub fn session_set_record(id: usize, on: bool) {
  with_global(|g| {
    if let Some(Some(s)) = g.sessions.get_mut(id) {
      s.record = on;
    }
  })
}

pub fn session_set_fault(id: usize, f: Option<(usize, FaultMode)>) {
  with_global(|g| {
    if let Some(Some(s)) = g.sessions.get_mut(id) {
      s.fault_at = f;
      s.mutating_seen = 0;
      s.fault_fired = false;
    }
  })
}

pub fn session_fault_fired(id: usize) -> (bool, usize) {
  with_global(|g| {
    g.sessions[id].as_ref().map(|s| (s.fault_fired, s.mutating_seen)).unwrap_or((false, 0))
  })
}

fn session_of_path(g: &Global, path: &str) -> Option<usize> {
  for (i, s) in g.sessions.iter().enumerate() {
    if let Some(s) = s {
      if path == s.root || (path.starts_with(&s.root) && path.as_bytes().get(s.root.len()) == Some(&b'/')) {
        return Some(i);
      }
    }
  }
  None
}

enum Decision {
  Pass,
  FailBefore,
  FailAfter,
}

/// Record `op` for the session owning it; returns the fault decision for mutating ops.
fn note(sid: usize, op: FsOp) -> Decision {
  with_global(|g| {
    let Some(Some(s)) = g.sessions.get_mut(sid) else { return Decision::Pass };
    let mutating = op.mutating();
    if matches!(op, FsOp::Access { .. }) && !s.record_access {
      return Decision::Pass;
    }
    let mut d = Decision::Pass;
    if mutating {
      if let Some((n, mode)) = s.fault_at {
        if !s.fault_fired && s.mutating_seen == n {
          s.fault_fired = true;
          d = match mode {
            FaultMode::Before => Decision::FailBefore,
            FaultMode::After => Decision::FailAfter,
          };
        }
      }
      s.mutating_seen += 1;
    }
    if s.record && !matches!(d, Decision::FailBefore) {
      s.log.push(op);
    } else if s.record {
      s.log.push(FsOp::Marker { text: format!("FAULT-BEFORE {}", op.brief()) });
    }
    d
  })
}

unsafe fn set_errno(e: c_int) {
  *libc::__errno_location() = e;
}

unsafe fn get_errno() -> c_int {
  *libc::__errno_location()
}

macro_rules! real {
  ($name:literal, $ty:ty) => {{
    static PTR: AtomicUsize = AtomicUsize::new(0);
    let mut p = PTR.load(Ordering::Relaxed);
    if p == 0 {
      p = libc::dlsym(libc::RTLD_NEXT, concat!($name, "\0").as_ptr() as *const c_char) as usize;
      PTR.store(p, Ordering::Relaxed);
    }
    if p == 0 {
      libc::abort();
    }
    std::mem::transmute::<usize, $ty>(p)
  }};
}

fn active() -> bool {
  ACTIVE.load(Ordering::Relaxed) > 0
}

unsafe fn cstr(p: *const c_char) -> Option<String> {
  if p.is_null() {
    return None;
  }
  CStr::from_ptr(p).to_str().ok().map(|s| s.to_string())
}

unsafe fn abs_path(dirfd: c_int, p: *const c_char) -> Option<String> {
  let s = cstr(p)?;
  if s.starts_with('/') {
    return Some(s);
  }
  if dirfd == libc::AT_FDCWD {
    return None; // relative paths are never under a session root (roots are absolute)
  }
  let base = with_global(|g| g.fds.get(&dirfd).map(|v| v.1.clone()))?;
  Some(format!("{base}/{s}"))
}

unsafe fn do_open(path: *const c_char, dirfd: c_int, flags: c_int, mode: c_uint, which: u8) -> c_int {
  type OpenFn = unsafe extern "C" fn(*const c_char, c_int, c_uint) -> c_int;
  type OpenatFn = unsafe extern "C" fn(c_int, *const c_char, c_int, c_uint) -> c_int;
  let call = |_: ()| -> c_int {
    match which {
      0 => (real!("open64", OpenFn))(path, flags, mode),
      1 => (real!("open", OpenFn))(path, flags, mode),
      2 => (real!("openat64", OpenatFn))(dirfd, path, flags, mode),
      _ => (real!("openat", OpenatFn))(dirfd, path, flags, mode),
    }
  };
  if !active() {
    return call(());
  }
  let Some(p) = abs_path(if which >= 2 { dirfd } else { libc::AT_FDCWD }, path) else { return call(()) };
  let Some(sid) = with_global(|g| session_of_path(g, &p)) else { return call(()) };
  let creat = flags & libc::O_CREAT != 0;
  let trunc = flags & libc::O_TRUNC != 0;
  let append = flags & libc::O_APPEND != 0;
  let write = (flags & libc::O_ACCMODE) != libc::O_RDONLY;
  let mut st: libc::stat = std::mem::zeroed();
  let cp = CString::new(p.clone()).unwrap();
  type StatFn = unsafe extern "C" fn(*const c_char, *mut libc::stat) -> c_int;
  let existed = (real!("stat", StatFn))(cp.as_ptr(), &mut st) == 0;
  let is_dir = existed && (st.st_mode & libc::S_IFMT) == libc::S_IFDIR;
  if !(creat || trunc) {
    // non-mutating open
    let fd = call(());
    let e = get_errno();
    if fd >= 0 {
      with_global(|g| g.fds.insert(fd, (sid, p.clone())));
      let _ = note(sid, FsOp::Open { fd, path: p.clone(), creat, trunc, append, write, existed, dir: is_dir });
    }
    let _ = note(sid, FsOp::Access { path: p, how: if fd >= 0 { "open" } else { "open-failed" } });
    set_errno(e);
    return fd;
  }
  // mutating open (create and/or truncate): one fault site
  let probe = FsOp::Open { fd: -1, path: p.clone(), creat, trunc, append, write, existed, dir: false };
  // decide fault first (without logging the provisional op twice)
  let d = with_global(|g| {
    let Some(Some(s)) = g.sessions.get_mut(sid) else { return Decision::Pass };
    let mut d = Decision::Pass;
    if let Some((n, mode)) = s.fault_at {
      if !s.fault_fired && s.mutating_seen == n {
        s.fault_fired = true;
        d = match mode {
          FaultMode::Before => Decision::FailBefore,
          FaultMode::After => Decision::FailAfter,
        };
      }
    }
    s.mutating_seen += 1;
    d
  });
  if let Decision::FailBefore = d {
    with_global(|g| {
      if let Some(Some(s)) = g.sessions.get_mut(sid) {
        if s.record {
          s.log.push(FsOp::Marker { text: format!("FAULT-BEFORE {}", probe.brief()) });
        }
      }
    });
    set_errno(libc::EIO);
    return -1;
  }
  let fd = call(());
  let saved_errno = get_errno();
  if fd >= 0 {
    with_global(|g| {
      g.fds.insert(fd, (sid, p.clone()));
      if let Some(Some(s)) = g.sessions.get_mut(sid) {
        if s.record {
          s.log.push(FsOp::Open { fd, path: p.clone(), creat, trunc, append, write, existed, dir: false });
        }
      }
    });
    if let Decision::FailAfter = d {
      type CloseFn = unsafe extern "C" fn(c_int) -> c_int;
      (real!("close", CloseFn))(fd);
      with_global(|g| {
        g.fds.remove(&fd);
        if let Some(Some(s)) = g.sessions.get_mut(sid) {
          if s.record {
            s.log.push(FsOp::Close { fd });
          }
        }
      });
      set_errno(libc::EIO);
      return -1;
    }
  }
  set_errno(saved_errno);
  fd
}

#[no_mangle]
pub unsafe extern "C" fn open64(path: *const c_char, flags: c_int, mode: c_uint) -> c_int {
  do_open(path, libc::AT_FDCWD, flags, mode, 0)
}
#[no_mangle]
pub unsafe extern "C" fn open(path: *const c_char, flags: c_int, mode: c_uint) -> c_int {
  do_open(path, libc::AT_FDCWD, flags, mode, 1)
}
#[no_mangle]
pub unsafe extern "C" fn openat64(dirfd: c_int, path: *const c_char, flags: c_int, mode: c_uint) -> c_int {
  do_open(path, dirfd, flags, mode, 2)
}
#[no_mangle]
pub unsafe extern "C" fn openat(dirfd: c_int, path: *const c_char, flags: c_int, mode: c_uint) -> c_int {
  do_open(path, dirfd, flags, mode, 3)
}

fn fd_session(fd: c_int) -> Option<(usize, String)> {
  if !active() {
    return None;
  }
  with_global(|g| g.fds.get(&fd).cloned())
}

#[no_mangle]
pub unsafe extern "C" fn close(fd: c_int) -> c_int {
  type F = unsafe extern "C" fn(c_int) -> c_int;
  if INIT.load(Ordering::Relaxed) && active() {
    if let Some((sid, _)) = with_global(|g| g.fds.remove(&fd)) {
      let _ = note(sid, FsOp::Close { fd });
    }
  }
  (real!("close", F))(fd)
}

#[no_mangle]
pub unsafe extern "C" fn write(fd: c_int, buf: *const c_void, count: usize) -> isize {
  type F = unsafe extern "C" fn(c_int, *const c_void, usize) -> isize;
  let Some((sid, _)) = fd_session(fd) else { return (real!("write", F))(fd, buf, count) };
  type L = unsafe extern "C" fn(c_int, i64, c_int) -> i64;
  let fl = libc::fcntl(fd, libc::F_GETFL);
  let offset = if fl >= 0 && (fl & libc::O_APPEND) != 0 {
    None
  } else {
    let o = (real!("lseek64", L))(fd, 0, libc::SEEK_CUR);
    if o >= 0 {
      Some(o as u64)
    } else {
      None
    }
  };
  let data = std::slice::from_raw_parts(buf as *const u8, count).to_vec();
  match note(sid, FsOp::Write { fd, offset, data }) {
    Decision::FailBefore => {
      set_errno(libc::EIO);
      -1
    }
    Decision::FailAfter => {
      let _ = (real!("write", F))(fd, buf, count);
      set_errno(libc::EIO);
      -1
    }
    Decision::Pass => {
      // the model assumes full writes; make it so
      let mut done = 0usize;
      while done < count {
        let r = (real!("write", F))(fd, (buf as *const u8).add(done) as *const c_void, count - done);
        if r < 0 {
          return r;
        }
        done += r as usize;
      }
      count as isize
    }
  }
}

#[no_mangle]
pub unsafe extern "C" fn pwrite64(fd: c_int, buf: *const c_void, count: usize, off: i64) -> isize {
  type F = unsafe extern "C" fn(c_int, *const c_void, usize, i64) -> isize;
  let Some((sid, _)) = fd_session(fd) else { return (real!("pwrite64", F))(fd, buf, count, off) };
  let data = std::slice::from_raw_parts(buf as *const u8, count).to_vec();
  match note(sid, FsOp::Write { fd, offset: Some(off as u64), data }) {
    Decision::FailBefore => {
      set_errno(libc::EIO);
      -1
    }
    Decision::FailAfter => {
      let _ = (real!("pwrite64", F))(fd, buf, count, off);
      set_errno(libc::EIO);
      -1
    }
    Decision::Pass => (real!("pwrite64", F))(fd, buf, count, off),
  }
}

#[no_mangle]
pub unsafe extern "C" fn writev(fd: c_int, iov: *const libc::iovec, iovcnt: c_int) -> isize {
  type F = unsafe extern "C" fn(c_int, *const libc::iovec, c_int) -> isize;
  let Some(_) = fd_session(fd) else { return (real!("writev", F))(fd, iov, iovcnt) };
  // lower to sequential write() calls so that every byte is logged
  let mut total = 0isize;
  for i in 0..iovcnt as usize {
    let v = *iov.add(i);
    if v.iov_len == 0 {
      continue;
    }
    let r = write(fd, v.iov_base, v.iov_len);
    if r < 0 {
      return if total > 0 { total } else { r };
    }
    total += r;
  }
  total
}

unsafe fn do_ftruncate(fd: c_int, len: i64, name64: bool) -> c_int {
  type F = unsafe extern "C" fn(c_int, i64) -> c_int;
  let call = || {
    if name64 {
      (real!("ftruncate64", F))(fd, len)
    } else {
      (real!("ftruncate", F))(fd, len)
    }
  };
  let Some((sid, _)) = fd_session(fd) else { return call() };
  match note(sid, FsOp::Truncate { fd, len: len as u64 }) {
    Decision::FailBefore => {
      set_errno(libc::EIO);
      -1
    }
    Decision::FailAfter => {
      let _ = call();
      set_errno(libc::EIO);
      -1
    }
    Decision::Pass => call(),
  }
}

#[no_mangle]
pub unsafe extern "C" fn ftruncate64(fd: c_int, len: i64) -> c_int {
  do_ftruncate(fd, len, true)
}
#[no_mangle]
pub unsafe extern "C" fn ftruncate(fd: c_int, len: i64) -> c_int {
  do_ftruncate(fd, len, false)
}

unsafe fn do_fsync(fd: c_int, data_only: bool) -> c_int {
  type F = unsafe extern "C" fn(c_int) -> c_int;
  let call = || {
    if data_only {
      (real!("fdatasync", F))(fd)
    } else {
      (real!("fsync", F))(fd)
    }
  };
  let Some((sid, _)) = fd_session(fd) else { return call() };
  match note(sid, FsOp::Fsync { fd }) {
    Decision::FailBefore => {
      set_errno(libc::EIO);
      -1
    }
    Decision::FailAfter => {
      let _ = call();
      set_errno(libc::EIO);
      -1
    }
    Decision::Pass => call(),
  }
}

#[no_mangle]
pub unsafe extern "C" fn fsync(fd: c_int) -> c_int {
  do_fsync(fd, false)
}
#[no_mangle]
pub unsafe extern "C" fn fdatasync(fd: c_int) -> c_int {
  do_fsync(fd, true)
}

unsafe fn path_session(p: &Option<String>) -> Option<usize> {
  if !active() {
    return None;
  }
  let p = p.as_ref()?;
  with_global(|g| session_of_path(g, p))
}

#[no_mangle]
pub unsafe extern "C" fn rename(from: *const c_char, to: *const c_char) -> c_int {
  type F = unsafe extern "C" fn(*const c_char, *const c_char) -> c_int;
  if !active() {
    return (real!("rename", F))(from, to);
  }
  let f = cstr(from);
  let t = cstr(to);
  let sid = path_session(&f).or(path_session(&t));
  let Some(sid) = sid else { return (real!("rename", F))(from, to) };
  match note(sid, FsOp::Rename { from: f.unwrap_or_default(), to: t.unwrap_or_default() }) {
    Decision::FailBefore => {
      set_errno(libc::EIO);
      -1
    }
    Decision::FailAfter => {
      let _ = (real!("rename", F))(from, to);
      set_errno(libc::EIO);
      -1
    }
    Decision::Pass => (real!("rename", F))(from, to),
  }
}

#[no_mangle]
pub unsafe extern "C" fn renameat(ofd: c_int, from: *const c_char, nfd: c_int, to: *const c_char) -> c_int {
  type F = unsafe extern "C" fn(c_int, *const c_char, c_int, *const c_char) -> c_int;
  if !active() {
    return (real!("renameat", F))(ofd, from, nfd, to);
  }
  let f = abs_path(ofd, from);
  let t = abs_path(nfd, to);
  let sid = path_session(&f).or(path_session(&t));
  let Some(sid) = sid else { return (real!("renameat", F))(ofd, from, nfd, to) };
  match note(sid, FsOp::Rename { from: f.unwrap_or_default(), to: t.unwrap_or_default() }) {
    Decision::FailBefore => {
      set_errno(libc::EIO);
      -1
    }
    Decision::FailAfter => {
      let _ = (real!("renameat", F))(ofd, from, nfd, to);
      set_errno(libc::EIO);
      -1
    }
    Decision::Pass => (real!("renameat", F))(ofd, from, nfd, to),
  }
}

#[no_mangle]
pub unsafe extern "C" fn unlink(path: *const c_char) -> c_int {
  type F = unsafe extern "C" fn(*const c_char) -> c_int;
  let p = cstr(path);
  let Some(sid) = path_session(&p) else { return (real!("unlink", F))(path) };
  match note(sid, FsOp::Unlink { path: p.unwrap_or_default() }) {
    Decision::FailBefore => {
      set_errno(libc::EIO);
      -1
    }
    Decision::FailAfter => {
      let _ = (real!("unlink", F))(path);
      set_errno(libc::EIO);
      -1
    }
    Decision::Pass => (real!("unlink", F))(path),
  }
}

#[no_mangle]
pub unsafe extern "C" fn unlinkat(dirfd: c_int, path: *const c_char, flags: c_int) -> c_int {
  type F = unsafe extern "C" fn(c_int, *const c_char, c_int) -> c_int;
  if !active() {
    return (real!("unlinkat", F))(dirfd, path, flags);
  }
  let p = abs_path(dirfd, path);
  let Some(sid) = path_session(&p) else { return (real!("unlinkat", F))(dirfd, path, flags) };
  let op = if flags & libc::AT_REMOVEDIR != 0 {
    FsOp::Rmdir { path: p.unwrap_or_default() }
  } else {
    FsOp::Unlink { path: p.unwrap_or_default() }
  };
  match note(sid, op) {
    Decision::FailBefore => {
      set_errno(libc::EIO);
      -1
    }
    Decision::FailAfter => {
      let _ = (real!("unlinkat", F))(dirfd, path, flags);
      set_errno(libc::EIO);
      -1
    }
    Decision::Pass => (real!("unlinkat", F))(dirfd, path, flags),
  }
}

#[no_mangle]
pub unsafe extern "C" fn mkdir(path: *const c_char, mode: c_uint) -> c_int {
  type F = unsafe extern "C" fn(*const c_char, c_uint) -> c_int;
  let p = cstr(path);
  let Some(sid) = path_session(&p) else { return (real!("mkdir", F))(path, mode) };
  let r = (real!("mkdir", F))(path, mode);
  let e = get_errno();
  if r == 0 {
    let _ = note(sid, FsOp::Mkdir { path: p.unwrap_or_default() });
  } else {
    let _ = note(sid, FsOp::Access { path: p.unwrap_or_default(), how: "mkdir-failed" });
  }
  set_errno(e); // bookkeeping (mutex futex waits) must not clobber the real call's errno
  r
}

#[no_mangle]
pub unsafe extern "C" fn rmdir(path: *const c_char) -> c_int {
  type F = unsafe extern "C" fn(*const c_char) -> c_int;
  let p = cstr(path);
  let Some(sid) = path_session(&p) else { return (real!("rmdir", F))(path) };
  let _ = note(sid, FsOp::Rmdir { path: p.unwrap_or_default() });
  (real!("rmdir", F))(path)
}

// ---- read-only path accesses (recorded only when the session asks for them) ------------------

#[no_mangle]
pub unsafe extern "C" fn stat(path: *const c_char, buf: *mut libc::stat) -> c_int {
  type F = unsafe extern "C" fn(*const c_char, *mut libc::stat) -> c_int;
  let p = cstr(path);
  if let Some(sid) = path_session(&p) {
    let _ = note(sid, FsOp::Access { path: p.unwrap_or_default(), how: "stat" });
  }
  (real!("stat", F))(path, buf)
}

#[no_mangle]
pub unsafe extern "C" fn stat64(path: *const c_char, buf: *mut libc::stat64) -> c_int {
  type F = unsafe extern "C" fn(*const c_char, *mut libc::stat64) -> c_int;
  let p = cstr(path);
  if let Some(sid) = path_session(&p) {
    let _ = note(sid, FsOp::Access { path: p.unwrap_or_default(), how: "stat" });
  }
  (real!("stat64", F))(path, buf)
}

#[no_mangle]
pub unsafe extern "C" fn lstat(path: *const c_char, buf: *mut libc::stat) -> c_int {
  type F = unsafe extern "C" fn(*const c_char, *mut libc::stat) -> c_int;
  let p = cstr(path);
  if let Some(sid) = path_session(&p) {
    let _ = note(sid, FsOp::Access { path: p.unwrap_or_default(), how: "lstat" });
  }
  (real!("lstat", F))(path, buf)
}

#[no_mangle]
pub unsafe extern "C" fn lstat64(path: *const c_char, buf: *mut libc::stat64) -> c_int {
  type F = unsafe extern "C" fn(*const c_char, *mut libc::stat64) -> c_int;
  let p = cstr(path);
  if let Some(sid) = path_session(&p) {
    let _ = note(sid, FsOp::Access { path: p.unwrap_or_default(), how: "lstat" });
  }
  (real!("lstat64", F))(path, buf)
}

#[no_mangle]
pub unsafe extern "C" fn statx(
  dirfd: c_int,
  path: *const c_char,
  flags: c_int,
  mask: c_uint,
  buf: *mut libc::statx,
) -> c_int {
  type F = unsafe extern "C" fn(c_int, *const c_char, c_int, c_uint, *mut libc::statx) -> c_int;
  if active() {
    let p = abs_path(dirfd, path);
    if let Some(sid) = path_session(&p) {
      if p.as_deref().map(|s| !s.is_empty()).unwrap_or(false) && !cstr(path).unwrap_or_default().is_empty() {
        let _ = note(sid, FsOp::Access { path: p.unwrap_or_default(), how: "statx" });
      }
    }
  }
  (real!("statx", F))(dirfd, path, flags, mask, buf)
}

#[no_mangle]
pub unsafe extern "C" fn access(path: *const c_char, mode: c_int) -> c_int {
  type F = unsafe extern "C" fn(*const c_char, c_int) -> c_int;
  let p = cstr(path);
  if let Some(sid) = path_session(&p) {
    let _ = note(sid, FsOp::Access { path: p.unwrap_or_default(), how: "access" });
  }
  (real!("access", F))(path, mode)
}

#[no_mangle]
pub unsafe extern "C" fn opendir(path: *const c_char) -> *mut libc::DIR {
  type F = unsafe extern "C" fn(*const c_char) -> *mut libc::DIR;
  let p = cstr(path);
  if let Some(sid) = path_session(&p) {
    let _ = note(sid, FsOp::Access { path: p.unwrap_or_default(), how: "opendir" });
  }
  (real!("opendir", F))(path)
}

#[no_mangle]
pub unsafe extern "C" fn readlink(path: *const c_char, buf: *mut c_char, sz: usize) -> isize {
  type F = unsafe extern "C" fn(*const c_char, *mut c_char, usize) -> isize;
  let p = cstr(path);
  if let Some(sid) = path_session(&p) {
    let _ = note(sid, FsOp::Access { path: p.unwrap_or_default(), how: "readlink" });
  }
  (real!("readlink", F))(path, buf, sz)
}

/// Self-test support: true when the interposed symbols are the ones std binds to.
pub fn selftest(dir: &std::path::Path) -> Result<(), String> {
  use std::io::Write;
  let root = dir.join("shim-selftest");
  std::fs::create_dir_all(&root).map_err(|e| e.to_string())?;
  let sid = session_start(root.to_str().unwrap(), true);
  let p = root.join("f.txt");
  {
    let mut f = std::fs::File::create(&p).map_err(|e| e.to_string())?;
    f.write_all(b"hello").map_err(|e| e.to_string())?;
    f.sync_all().map_err(|e| e.to_string())?;
  }
  std::fs::rename(&p, root.join("g.txt")).map_err(|e| e.to_string())?;
  let _ = root.join("g.txt").exists();
  {
    let d = std::fs::File::open(&root).map_err(|e| e.to_string())?;
    d.sync_all().map_err(|e| e.to_string())?;
  }
  std::fs::remove_file(root.join("g.txt")).map_err(|e| e.to_string())?;
  let s = session_end(sid);
  let _ = std::fs::remove_dir_all(&root);
  let briefs: Vec<String> = s.log.iter().map(|o| o.brief()).collect();
  let want = ["open(f.txt,creat,trunc)", "write(", "fsync(", "rename(f.txt->g.txt)", "open(shim-selftest,dir)", "unlink(g.txt)"];
  for w in want {
    if !briefs.iter().any(|b| b.starts_with(w)) {
      return Err(format!("shim did not observe `{w}`; log = {briefs:?}"));
    }
  }
  if !briefs.iter().any(|b| b.contains("stat")) {
    return Err(format!("shim did not observe a stat-family call for exists(); log = {briefs:?}"));
  }
  Ok(())
}
