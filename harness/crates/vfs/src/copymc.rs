//! C28 — a copied index directory is self-contained.
//! Engine: copymc — BFS-reachable index states x {original kept, modified, removed} x every
//! sequence of <= 3 operations on the copy, with libc interposition watching the original path.

use std::collections::{BTreeMap, HashSet};
use std::path::{Path, PathBuf};
use std::sync::atomic::{AtomicU64, Ordering};

use parking_lot::Mutex;
use rayon::prelude::*;
use serde::{Deserialize, Serialize};
use serde_json::{json, Value};

use vcore::ev::Reporter;
use vcore::hist::*;
use vcore::inp::sequences;
use vcore::world::*;

use crate::crashmc::Ctx;
use crate::shim::{self, FsOp};

#[derive(Debug, Clone, Copy, PartialEq, Eq, Hash, Serialize, Deserialize)]
pub enum OrigMode {
  Kept,
  Modified,
  Removed,
  /// the original stays open in this process (live `Index`, a reader and a writer handle) while
  /// the copy is opened and used
  KeptOpen,
}

#[derive(Debug, Clone, Copy, PartialEq, Eq, Hash, Serialize, Deserialize)]
pub enum CopyOp {
  Search,
  AddCommit,
  DelCommit,
  Compact,
  Reopen,
  PendingAdd, // add without commit, then drop the writer (exercises the WAL of the copy)
}

fn cfg() -> Config {
  Config { mem: false, positions: true, handles: 1, compactable: true, max_depth: 0, max_segments: 3, max_queue: 2 }
}

fn copy_dir(from: &Path, to: &Path) -> std::io::Result<()> {
  std::fs::create_dir_all(to)?;
  for e in std::fs::read_dir(from)? {
    let e = e?;
    let p = e.path();
    let t = to.join(e.file_name());
    if p.is_dir() {
      copy_dir(&p, &t)?;
    } else {
      std::fs::copy(&p, &t)?;
    }
  }
  Ok(())
}

fn dir_digest(root: &Path) -> BTreeMap<String, u64> {
  use std::hash::{Hash, Hasher};
  let mut out = BTreeMap::new();
  if let Ok(rd) = std::fs::read_dir(root) {
    for e in rd.flatten() {
      let p = e.path();
      if p.is_file() {
        let mut h = std::collections::hash_map::DefaultHasher::new();
        std::fs::read(&p).unwrap_or_default().hash(&mut h);
        out.insert(e.file_name().to_string_lossy().to_string(), h.finish());
      }
    }
  }
  out
}

struct Outcome {
  failure: Option<(Option<&'static str>, String)>,
  accesses: usize,
  final_contents: String,
}

/// Where the original and the copy live relative to each other: unrelated names, the copy's path
/// a string prefix of the original's, and the original's path a string prefix of the copy's.
const NAMINGS: [(&str, &str); 3] = [("original", "backup/copy"), ("idx.orig", "idx"), ("data", "data.bak")];

fn run_case(hist: &[Op], mode: OrigMode, ops: &[CopyOp], naming: usize) -> Outcome {
  let scratch = Scratch::new("c28");
  let orig = scratch.sub(NAMINGS[naming].0);
  let copy = scratch.path.join(NAMINGS[naming].1);
  let c = cfg();
  let fail = |sig: Option<&'static str>, s: String| Outcome { failure: Some((sig, s)), accesses: 0, final_contents: String::new() };
  // build the original
  let mut ex = Exec::new_at(&c, &orig);
  for op in hist {
    if let Err(f) = ex.step(op, false) {
      vcore::ev::machinery_failure(&format!("C28 base history failed: {}", f.1));
    }
  }
  let mut model: BTreeMap<String, String> = ex.model.committed.clone();
  let pending_log = std::cell::RefCell::new(ex.model.log.clone());
  let Exec { live, .. } = ex;
  drop(live);
  if let Err(e) = copy_dir(&orig, &copy) {
    vcore::ev::machinery_failure(&format!("copy failed: {e}"));
  }
  // what happens to the original afterwards
  match mode {
    OrigMode::Kept | OrigMode::KeptOpen => {}
    OrigMode::Modified => {
      let idx = fs_open(&orig).expect("open original");
      let mut w = idx.writer().expect("writer");
      w.add_document(&doc(&version_doc("B", "2"))).expect("add");
      w.delete_document("A").expect("del");
      w.commit().expect("commit");
      drop(w);
      if idx.manifest().segments.len() > 1 {
        idx.compact().expect("compact original");
      }
    }
    OrigMode::Removed => {
      std::fs::remove_dir_all(&orig).expect("remove original");
    }
  }
  // the original's own handles are opened before the original path is watched; from then on they
  // only sit there
  let orig_model = model.clone();
  let orig_open = if mode == OrigMode::KeptOpen {
    let idx = fs_open(&orig).expect("open original");
    let reader = idx.reader().expect("reader on the original");
    let writer = idx.writer().expect("writer on the original");
    Some((idx, reader, writer))
  } else {
    None
  };
  let digest_before = dir_digest(&orig);
  let versions = |id: &str, v: &str| version_doc(id, v);
  let sch = schema_s3(true);
  // watch the original path
  let sid = shim::session_start(orig.to_str().unwrap(), true);
  let result = vcore::catch(|| -> Result<String, (Option<&'static str>, String)> {
    let mut idx = fs_open(&copy).map_err(|e| (Some("C28-absolute-segment-paths"), format!("opening the copy failed: {e:#}")))?;
    let mut first = true;
    let mut last = String::new();
    let mut all_ops: Vec<CopyOp> = vec![CopyOp::Search];
    all_ops.extend_from_slice(ops);
    all_ops.push(CopyOp::Search);
    for op in all_ops {
      match op {
        CopyOp::Search => {
          let got = contents(&idx).map_err(|e| (Some("C28-absolute-segment-paths"), format!("search on the copy failed: {e:#}")))?;
          let want = expected_contents(&sch, &model, &versions);
          if got != want {
            return Err((
              None,
              format!(
                "{} on the copy returns {} but the model of the copy says {}",
                if first { "first search" } else { "search" },
                serde_json::to_string(&got).unwrap(),
                serde_json::to_string(&want).unwrap()
              ),
            ));
          }
          first = false;
          last = serde_json::to_string(&got).unwrap();
        }
        CopyOp::AddCommit => {
          let mut w = idx.writer().map_err(|e| (None, format!("writer on the copy: {e:#}")))?;
          w.add_document(&doc(&version_doc("C", "1"))).map_err(|e| (None, format!("add on the copy: {e:#}")))?;
          w.commit().map_err(|e| (None, format!("commit on the copy: {e:#}")))?;
          // a new writer replays the copied WAL: its queued operations are committed too
          for q in pending_log.borrow_mut().drain(..) {
            match q {
              QOp::Add(i, v) => {
                model.insert(i, v);
              }
              QOp::Del(i) => {
                model.remove(&i);
              }
            }
          }
          model.insert("C".into(), "1".into());
        }
        CopyOp::DelCommit => {
          let mut w = idx.writer().map_err(|e| (None, format!("writer on the copy: {e:#}")))?;
          w.delete_document("A").map_err(|e| (None, format!("delete on the copy: {e:#}")))?;
          w.commit().map_err(|e| (None, format!("commit on the copy: {e:#}")))?;
          for q in pending_log.borrow_mut().drain(..) {
            match q {
              QOp::Add(i, v) => {
                model.insert(i, v);
              }
              QOp::Del(i) => {
                model.remove(&i);
              }
            }
          }
          model.remove("A");
        }
        CopyOp::PendingAdd => {
          let mut w = idx.writer().map_err(|e| (None, format!("writer on the copy: {e:#}")))?;
          w.add_document(&doc(&version_doc("C", "2"))).map_err(|e| (None, format!("add on the copy: {e:#}")))?;
          drop(w);
          return Ok(last); // queue contents are C02's business; stop judging contents here
        }
        CopyOp::Compact => {
          idx.compact().map_err(|e| (None, format!("compact on the copy: {e:#}")))?;
        }
        CopyOp::Reopen => {
          idx = fs_open(&copy).map_err(|e| (None, format!("reopening the copy failed: {e:#}")))?;
        }
      }
    }
    Ok(last)
  });
  let sess = shim::session_end(sid);
  let touched: Vec<String> = sess
    .log
    .iter()
    .filter(|o| !matches!(o, FsOp::Marker { .. } | FsOp::Close { .. }))
    .map(|o| o.brief())
    .collect();
  let digest_after = dir_digest(&orig);
  match result {
    Err(p) => return fail(None, format!("panic while operating on the copy: {p}")),
    Ok(Err((sig, what))) => {
      // a failure to open because the original is gone is the absolute-path defect
      let sig = if mode == OrigMode::Removed || !touched.is_empty() { sig.or(Some("C28-absolute-segment-paths")) } else { None };
      return fail(sig, format!("{what}; accesses under the original path: {:?}", touched.iter().take(4).collect::<Vec<_>>()));
    }
    Ok(Ok(last)) => {
      if !touched.is_empty() {
        let destructive = sess.log.iter().any(|o| matches!(o, FsOp::Unlink { .. } | FsOp::Rename { .. } | FsOp::Write { .. } | FsOp::Truncate { .. }) || matches!(o, FsOp::Open { creat: true, .. } | FsOp::Open { trunc: true, .. }));
        return fail(
          Some("C28-absolute-segment-paths"),
          format!(
            "operations on the copy touched {} path(s) under the ORIGINAL directory ({}): {:?}",
            touched.len(),
            if destructive { "including writes/deletes" } else { "reads" },
            touched.iter().take(6).collect::<Vec<_>>()
          ),
        );
      }
      if digest_before != digest_after {
        return fail(Some("C28-absolute-segment-paths"), "files of the original directory changed while only the copy was used".into());
      }
      if mode == OrigMode::Removed && orig.exists() {
        return fail(None, "the removed original directory was recreated".into());
      }
      if let Some((oidx, _reader, writer)) = orig_open {
        // the original, still open, serves what it held when it was copied
        drop(writer);
        let want = expected_contents(&sch, &orig_model, &versions);
        match vcore::catch(|| contents(&oidx)) {
          Ok(Ok(got)) if got == want => {}
          Ok(Ok(got)) => {
            return fail(
              None,
              format!(
                "operations on the copy changed what the still-open original serves: {} instead of {}",
                serde_json::to_string(&got).unwrap(),
                serde_json::to_string(&want).unwrap()
              ),
            )
          }
          Ok(Err(e)) => return fail(None, format!("the still-open original cannot be searched after the copy was used: {e:#}")),
          Err(p) => return fail(None, format!("panic searching the still-open original: {p}")),
        }
      }
      Outcome { failure: None, accesses: 0, final_contents: last }
    }
  }
}

pub fn run(ctx: &Ctx) -> i32 {
  let mut rep = Reporter::new("C28", ctx.tier, "model_checking");
  let quick = ctx.tier.is_quick();
  let sc = Scratch::new("selftest");
  if let Err(e) = shim::selftest(&sc.path) {
    vcore::ev::machinery_failure(&format!("fsshim self-test failed: {e}"));
  }
  if let Some(path) = &ctx.replay {
    rep.set_replaying(true);
    let v: Value = serde_json::from_slice(&std::fs::read(path).expect("replay file")).expect("json");
    let hist: Vec<Op> = serde_json::from_value(v["case"]["history"].clone()).expect("history");
    let mode: OrigMode = serde_json::from_value(v["case"]["original"].clone()).expect("mode");
    let ops: Vec<CopyOp> = serde_json::from_value(v["case"]["ops"].clone()).expect("ops");
    let naming = v["case"]["naming"].as_u64().unwrap_or(0) as usize;
    let a = run_case(&hist, mode, &ops, naming);
    let b = run_case(&hist, mode, &ops, naming);
    if a.failure.is_some() != b.failure.is_some() {
      vcore::ev::machinery_failure("NONDETERMINISM on replay");
    }
    return match a.failure {
      Some((_, w)) => {
        println!("VIOLATION property=C28 replay={path}\n  what: {w}");
        1
      }
      None => {
        println!("replay: no violation");
        0
      }
    };
  }
  // base states: BFS over single-handle histories, keep states with >= 1 segment
  let depth = if quick { 5 } else { 7 };
  let c = Config { max_depth: depth, ..cfg() };
  let alpha: Vec<Op> = {
    let mut a = vec![Op::New(0)];
    for (id, v) in [("A", "1"), ("A", "2"), ("B", "1")] {
      a.push(Op::Add(0, id.into(), v.into()));
    }
    a.push(Op::Del(0, "A".into()));
    a.push(Op::Commit(0));
    a.push(Op::DropH(0));
    a.push(Op::Compact);
    a
  };
  let mut seen: HashSet<String> = HashSet::new();
  let init = execute(&c, &[]);
  seen.insert(init.key.clone());
  let mut frontier = vec![(Vec::<Op>::new(), init.model, init.nseg)];
  let mut bases: Vec<Vec<Op>> = Vec::new();
  for _ in 0..depth {
    let tasks: Vec<Vec<Op>> = frontier
      .iter()
      .flat_map(|(h, m, n)| {
        alpha.iter().filter(|op| op_allowed(&c, m, *n, op)).map(|op| {
          let mut x = h.clone();
          x.push(op.clone());
          x
        }).collect::<Vec<_>>()
      })
      .collect();
    let outs: Vec<(Vec<Op>, Outcome0)> = tasks.into_par_iter().map(|h| { let o = execute(&c, &h); (h, Outcome0 { key: o.key, model: o.model, nseg: o.nseg, failed: o.failure.is_some() }) }).collect();
    let mut next = Vec::new();
    for (h, o) in outs {
      if o.failed {
        continue;
      }
      if seen.insert(o.key) {
        if o.nseg >= 1 {
          bases.push(h.clone());
        }
        next.push((h, o.model, o.nseg));
      }
    }
    frontier = next;
  }
  let seqs: Vec<Vec<CopyOp>> = {
    let alphabet = [CopyOp::AddCommit, CopyOp::DelCommit, CopyOp::Compact, CopyOp::Reopen, CopyOp::PendingAdd];
    let mut s = sequences(&alphabet, 0, if quick { 2 } else { 3 });
    // PendingAdd ends a sequence
    s.retain(|q| q.iter().position(|o| *o == CopyOp::PendingAdd).map(|p| p == q.len() - 1).unwrap_or(true));
    s
  };
  let modes = [OrigMode::Kept, OrigMode::Modified, OrigMode::Removed, OrigMode::KeptOpen];
  let mut cases: Vec<(usize, OrigMode, usize, usize)> = Vec::new();
  for b in 0..bases.len() {
    for m in modes {
      for s in 0..seqs_len(&seqs) {
        // every case under the unrelated naming; the prefix-related namings for the short sequences
        cases.push((b, m, s, 0));
        if seqs[s].len() <= 1 {
          cases.push((b, m, s, 1));
          cases.push((b, m, s, 2));
        }
      }
    }
  }
  let evals = AtomicU64::new(0);
  let outcomes: Mutex<HashSet<String>> = Mutex::new(HashSet::new());
  let budget = if quick { 40.0 } else { 1500.0 };
  let timed_out = std::sync::atomic::AtomicBool::new(false);
  cases.par_iter().for_each(|(b, m, s, nm)| {
    if rep.elapsed_s() > budget {
      timed_out.store(true, Ordering::Relaxed);
      return;
    }
    let o = run_case(&bases[*b], *m, &seqs[*s], *nm);
    evals.fetch_add(1, Ordering::Relaxed);
    let _ = o.accesses;
    match o.failure {
      Some((sig, what)) => rep.fail(
        sig,
        &format!("original ({}) built by [{}], then {:?}; on the copy ({}) {:?}: {}", NAMINGS[*nm].0, hist_str(&bases[*b]), m, NAMINGS[*nm].1, seqs[*s], what),
        json!({"engine": "copymc", "history": bases[*b], "original": m, "ops": seqs[*s], "naming": nm}),
      ),
      None => {
        outcomes.lock().insert(o.final_contents);
        if seqs[*s].len() >= 2 {
          rep.sample(json!({"original_history": hist_str(&bases[*b]), "original_afterwards": format!("{m:?}"), "ops_on_copy": format!("{:?}", seqs[*s])}));
        }
      }
    }
  });
  rep.add_evals(evals.load(Ordering::Relaxed));
  let to = timed_out.load(Ordering::Relaxed);
  let n_out = outcomes.lock().len();
  if n_out < 2 && rep.violations() == 0 && rep.known_cases() == 0 {
    vcore::ev::machinery_failure("C28 vacuous: fewer than 2 distinct outcomes");
  }
  let cov = vcore::cov! {
    "states" => bases.len(),
    "transitions" => evals.load(Ordering::Relaxed),
    "traces_validated_against_impl" => evals.load(Ordering::Relaxed),
    "distinct_nontrivial" => evals.load(Ordering::Relaxed),
    "rule" => "base states = every canonical state with >= 1 segment of a BFS over single-handle histories (tombstones, several segments, non-empty WAL included); each is copied recursively to another path; the original is then kept / modified by a further commit+compaction / removed / kept open in this process (live Index, reader and writer handle); on the copy every sequence of <= 2 (quick) / <= 3 (thorough) operations from {add+commit, delete+commit, compact, reopen, add-without-commit} is executed between searches. libc interposition records every open/stat/unlink/rename/... whose path lies under the ORIGINAL root while the copy is used. Oracle: the copy opens; searches equal the contents model of the copy; zero accesses under the original root; original files byte-identical (or not recreated).",
    "op_sequences_per_state" => seqs.len() * 3,
    "path_namings" => "original vs backup/copy (unrelated); idx.orig vs idx (copy path is a string prefix of the original's); data vs data.bak (original path is a string prefix of the copy's)",
    "distinct_observed_outcomes" => n_out,
    "cap_hit" => if to { Some(format!("wall budget {budget}s")) } else { None },
    "exhaustive" => !to,
  };
  rep.finish(cov, vec!["accesses are observed at the libc boundary of this process (open*, stat*, statx, access, unlink*, rename*, mkdir, rmdir, opendir, readlink)".into()])
}

struct Outcome0 {
  key: String,
  model: Model,
  nseg: usize,
  failed: bool,
}

fn seqs_len(s: &[Vec<CopyOp>]) -> usize {
  s.len()
}

#[allow(dead_code)]
fn unused(_: PathBuf) {}
