//! C01 / C02 — crash consistency by exhaustive crash-image enumeration.
//!
//! For every transition (state, op) of a BFS over operation histories on a real FsStorage index,
//! the op runs under fsshim; for every cut position in its syscall log and every durable image the
//! durability model M admits, the image is materialised in the index directory and the real
//! recovery path (Index::open, reader, search, WAL replay, new writer, commit) is run on it.

use std::collections::{BTreeMap, HashMap, HashSet};
use std::path::{Path, PathBuf};
use std::sync::atomic::{AtomicU64, Ordering};

use parking_lot::Mutex;
use rayon::prelude::*;
use serde_json::{json, Value};

use vcore::ev::{Reporter, Tier};
use vcore::hist::*;
use vcore::world::*;

use crate::fsmodel::*;
use crate::shim::{self, FsOp};

pub struct Ctx {
  pub tier: Tier,
  pub replay: Option<String>,
}

fn cfg_for(depth: usize) -> Config {
  Config { mem: false, positions: true, handles: 1, compactable: true, max_depth: depth, max_segments: 3, max_queue: 2 }
}

fn alphabet1() -> Vec<Op> {
  let mut a = vec![Op::New(0)];
  for (id, v) in [("A", "1"), ("A", "2"), ("B", "1")] {
    a.push(Op::Add(0, id.into(), v.into()));
  }
  a.push(Op::Del(0, "A".into()));
  a.push(Op::Del(0, "B".into()));
  a.push(Op::Commit(0));
  a.push(Op::Rollback(0));
  a.push(Op::DropH(0));
  a.push(Op::Compact);
  a.push(Op::Reopen);
  a
}

/// What recovery observed on one durable image.
#[derive(Debug, Clone, PartialEq)]
pub enum Recovered {
  OpenErr(String),
  ReaderErr(String),
  Panic(String),
  Contents(BTreeMap<String, Value>),
}

impl Recovered {
  fn brief(&self) -> String {
    match self {
      Recovered::OpenErr(e) => format!("Index::open failed: {e}"),
      Recovered::ReaderErr(e) => format!("reader/search failed: {e}"),
      Recovered::Panic(e) => format!("panic: {e}"),
      Recovered::Contents(c) => serde_json::to_string(c).unwrap(),
    }
  }
}

/// Recovery-relevant projection of an image: MANIFEST.json, the files it names, wal.log.
/// Recovery (open, reader, search, WAL replay, new writer + commit) opens no other path: new
/// segment files get fresh UUID names and MANIFEST.tmp is created with O_TRUNC. The projection is
/// validated at run time by `selfcheck` re-executions.
fn projection_key(root: &Path, img: &Image) -> Vec<u8> {
  let mut parts: Vec<(String, Option<Vec<u8>>)> = Vec::new();
  let man = img.get("MANIFEST.json");
  parts.push(("MANIFEST.json".into(), man.cloned()));
  parts.push(("wal.log".into(), img.get("wal.log").cloned()));
  if let Some(m) = man {
    if let Ok(v) = serde_json::from_slice::<Value>(m) {
      if let Some(segs) = v.get("segments").and_then(|s| s.as_array()) {
        for s in segs {
          if let Some(paths) = s.get("paths").and_then(|p| p.as_object()) {
            for (_k, p) in paths {
              if let Some(p) = p.as_str() {
                let name = Path::new(p)
                  .strip_prefix(root)
                  .ok()
                  .and_then(|r| r.to_str())
                  .unwrap_or(p)
                  .to_string();
                let c = img.get(&name).cloned();
                parts.push((name, c));
              }
            }
          }
        }
      }
    }
  }
  let refs: Vec<(&str, Option<&[u8]>)> = parts.iter().map(|(n, c)| (n.as_str(), c.as_deref())).collect();
  key_bytes(&refs)
}

/// File names (relative to the index root) a MANIFEST.json content refers to.
pub fn manifest_refs(root: &Path, m: &[u8]) -> Vec<String> {
  let mut out = Vec::new();
  if let Ok(v) = serde_json::from_slice::<Value>(m) {
    if let Some(segs) = v.get("segments").and_then(|s| s.as_array()) {
      for s in segs {
        if let Some(paths) = s.get("paths").and_then(|p| p.as_object()) {
          for (_k, p) in paths {
            if let Some(p) = p.as_str() {
              if let Some(n) = Path::new(p).strip_prefix(root).ok().and_then(|r| r.to_str()) {
                out.push(n.to_string());
              }
            }
          }
        }
      }
    }
  }
  out
}

fn recover_c01(root: &Path) -> Recovered {
  let r = vcore::catch(|| {
    let idx = match fs_open(root) {
      Ok(i) => i,
      Err(e) => return Recovered::OpenErr(format!("{e:#}")),
    };
    match contents(&idx) {
      Ok(c) => Recovered::Contents(c),
      Err(e) => Recovered::ReaderErr(format!("{e:#}")),
    }
  });
  match r {
    Ok(r) => r,
    Err(p) => Recovered::Panic(p),
  }
}

pub struct TransitionResult {
  pub hist: Vec<Op>,
  pub key: String,
  pub model: Model,
  pub nseg: usize,
  pub failure: Option<String>,
  pub cuts: u64,
  pub images: u64,
  pub recoveries: u64,
  pub distinct_outcomes: HashSet<String>,
  pub nontrivial_images: u64,
  pub syscalls: usize,
  pub sample: Option<Value>,
  pub capped: bool,
}

pub struct Knobs {
  pub policy: TearPolicy,
  pub nonprefix: bool,
  pub image_cap: usize,
  pub selfcheck_every: u64,
}

static SELFCHECK: AtomicU64 = AtomicU64::new(0);

/// Run `hist` (last op recorded cut by cut) and check C01 on every image of every cut.
pub fn run_transition(cfg: &Config, hist: &[Op], knobs: &Knobs, violations: &Mutex<Vec<(String, Value)>>) -> TransitionResult {
  let scratch = Scratch::new("c01");
  let root = scratch.sub("idx");
  let root_s = root.to_str().unwrap().to_string();
  let sid = shim::session_start(&root_s, false);
  let mut ex = Exec::new_at(cfg, &root);
  let mut failure = None;
  let n = hist.len();
  for op in &hist[..n - 1] {
    if let Err(f) = ex.step(op, false) {
      failure = Some(format!("MACHINERY: prefix op failed (the prefix was validated when it was the last op): {}", f.1));
      break;
    }
  }
  let pre_expected = ex.expected();
  let begin = shim::session_log_len(sid);
  let last = &hist[n - 1];
  if failure.is_none() {
    if let Err(f) = ex.step(last, true) {
      violations.lock().push((
        format!("none|history [{}] fails without any crash: {}", hist_str(hist), f.1),
        json!({"engine": "crashmc", "history": hist, "cut_index": null}),
      ));
      failure = Some(f.1);
    }
  }
  let post_expected = ex.expected();
  let key = if failure.is_none() { ex.key() } else { String::new() };
  let model = ex.model.clone();
  let nseg = ex.nseg;
  let log = shim::session_take_log(sid);
  shim::session_set_record(sid, false);
  if std::env::var("VERIF_DEBUG").is_ok() {
    for (i, o) in log.iter().enumerate() {
      eprintln!("{}{:3} {}", if i >= begin { "*" } else { " " }, i, o.brief());
    }
  }
  // release every fd the execution holds before the directory is rewritten
  let Exec { live, .. } = ex;
  drop(live);
  let _ = shim::session_end(sid);

  let mut res = TransitionResult {
    hist: hist.to_vec(),
    key,
    model,
    nseg,
    failure,
    cuts: 0,
    images: 0,
    recoveries: 0,
    distinct_outcomes: HashSet::new(),
    nontrivial_images: 0,
    syscalls: log.len().saturating_sub(begin),
    sample: None,
    capped: false,
  };
  if res.failure.is_some() {
    return res;
  }

  // replay the log into the durability model; enumerate images at every cut inside the last op
  let mut fsm = FsModel::new(&root_s);
  let mut memo: HashMap<Vec<u8>, Recovered> = HashMap::new();
  let in_flight_possible = matches!(last, Op::Commit(_) | Op::Compact);
  let mut prev_state_images: Option<u64> = None;
  let is_state_changing = |op: &FsOp| {
    matches!(op, FsOp::Open { .. } | FsOp::Write { .. } | FsOp::Truncate { .. } | FsOp::Fsync { .. } | FsOp::Rename { .. } | FsOp::Unlink { .. })
  };
  let last_changing = log.iter().rposition(|o| is_state_changing(o)).filter(|p| *p >= begin);
  for (i, op) in log.iter().enumerate() {
    if let Err(e) = fsm.step(op) {
      res.failure = Some(format!("MACHINERY: durability model cannot replay {}: {e}", op.brief()));
      return res;
    }
    if i + 1 < begin {
      continue;
    }
    // cut after op i (i + 1 == begin is the cut before the last op's first syscall)
    let state_changing = i + 1 == begin || (i >= begin && is_state_changing(op));
    if !state_changing {
      continue;
    }
    let at_end = match last_changing {
      Some(l) => i == l,
      None => true,
    };
    res.cuts += 1;
    let (images, capped) = fsm.images(
      knobs.policy,
      knobs.nonprefix,
      knobs.image_cap,
      "MANIFEST.json",
      &["wal.log"],
      &|m: &[u8]| manifest_refs(&root, m),
    );
    res.capped |= capped;
    // skip a cut whose image set is identical to the previous cut's (cheap fingerprint)
    let fp = {
      use std::hash::{Hash, Hasher};
      let mut h = std::collections::hash_map::DefaultHasher::new();
      for im in &images {
        hash_image(im).hash(&mut h);
      }
      h.finish()
    };
    if prev_state_images == Some(fp) && !at_end {
      continue;
    }
    prev_state_images = Some(fp);
    let latest = fsm.latest_image();
    for img in images {
      res.images += 1;
      if img != latest {
        res.nontrivial_images += 1;
      }
      let pk = projection_key(&root, &img);
      let (rec, fresh) = match memo.get(&pk) {
        Some(r) => (r.clone(), false),
        None => {
          if let Err(e) = materialise(&root, &img) {
            res.failure = Some(format!("MACHINERY: cannot materialise image: {e}"));
            return res;
          }
          res.recoveries += 1;
          let r = recover_c01(&root);
          if knobs.selfcheck_every > 0 && SELFCHECK.fetch_add(1, Ordering::Relaxed) % knobs.selfcheck_every == 0 {
            // files outside the projection must not influence recovery
            let full = fsm.full_image(&img);
            let _ = materialise(&root, &full);
            let r2 = recover_c01(&root);
            if r2 != r {
              // a full image may legitimately contain a newer MANIFEST.json only if the projected
              // one had none; projected images always carry their own manifest choice
              res.failure = Some(format!(
                "MACHINERY: projection unsound: projected image recovers {} but with unreferenced files present {}",
                r.brief(),
                r2.brief()
              ));
              return res;
            }
          }
          memo.insert(pk.clone(), r.clone());
          (r, true)
        }
      };
      let _ = fresh;
      res.distinct_outcomes.insert(rec.brief());
      // oracle
      let ok = match &rec {
        Recovered::Contents(c) => {
          if at_end {
            *c == post_expected
          } else if in_flight_possible {
            *c == pre_expected || *c == post_expected
          } else {
            *c == pre_expected
          }
        }
        _ => false,
      };
      if res.sample.is_none() && res.images > 3 {
        res.sample = Some(json!({
          "history": hist_str(hist),
          "cut_after": op.brief(),
          "image_files": img.iter().map(|(n, c)| format!("{n}:{}", c.len())).collect::<Vec<_>>(),
          "recovered": rec.brief(),
        }));
      }
      if !ok {
        let files: BTreeMap<String, String> = img.iter().map(|(n, c)| (n.clone(), hex(c))).collect();
        let what = format!(
          "history [{}], crash after syscall #{} {} of the last op{}: recovery gave {} ; allowed: {}{}",
          hist_str(hist),
          i + 1 - begin,
          op.brief(),
          if at_end { " (op had returned Ok)" } else { "" },
          rec.brief(),
          serde_json::to_string(&if at_end { &post_expected } else { &pre_expected }).unwrap(),
          if in_flight_possible && !at_end {
            format!(" or {}", serde_json::to_string(&post_expected).unwrap())
          } else {
            String::new()
          }
        );
        let sig = classify(&rec, &img);
        violations.lock().push((
          format!("{sig}|{what}"),
          json!({"engine": "crashmc", "history": hist, "cut_index": i + 1 - begin, "cut_after": op.brief(),
                 "syscalls_of_last_op": log[begin..].iter().map(|o| o.brief()).collect::<Vec<_>>(),
                 "image_hex": files, "root": root_s}),
        ));
        res.failure = Some(what);
        return res;
      }
    }
  }
  res
}

fn classify(_rec: &Recovered, _img: &Image) -> &'static str {
  "none"
}

pub fn hex(b: &[u8]) -> String {
  let mut s = String::with_capacity(b.len() * 2);
  for x in b {
    s.push_str(&format!("{x:02x}"));
  }
  s
}

pub fn unhex(s: &str) -> Vec<u8> {
  (0..s.len() / 2).map(|i| u8::from_str_radix(&s[2 * i..2 * i + 2], 16).unwrap_or(0)).collect()
}

pub fn run_c01(ctx: &Ctx) -> i32 {
  let mut rep = Reporter::new("C01", ctx.tier, "model_checking");
  let scratch = Scratch::new("selftest");
  if let Err(e) = shim::selftest(&scratch.path) {
    vcore::ev::machinery_failure(&format!("fsshim self-test failed: {e}"));
  }
  let quick = ctx.tier.is_quick();
  let knobs = Knobs {
    policy: if quick { TearPolicy::Quick } else { TearPolicy::Full },
    nonprefix: !quick,
    image_cap: if quick { 4000 } else { 200000 },
    selfcheck_every: if quick { 50 } else { 25 },
  };
  if let Some(path) = &ctx.replay {
    rep.set_replaying(true);
    let v: Value = serde_json::from_slice(&std::fs::read(path).expect("replay file")).expect("json");
    let hist: Vec<Op> = serde_json::from_value(v["case"]["history"].clone()).expect("history");
    let viol = Mutex::new(Vec::new());
    let cfg = cfg_for(hist.len());
    let r1 = run_transition(&cfg, &hist, &knobs, &viol);
    let r2 = run_transition(&cfg, &hist, &knobs, &viol);
    let strip = |s: &Option<String>| s.clone().map(|x| x.split("; allowed").next().unwrap_or("").to_string());
    if r1.failure.is_some() != r2.failure.is_some() {
      vcore::ev::machinery_failure(&format!("NONDETERMINISM on replay: {:?} vs {:?}", strip(&r1.failure), strip(&r2.failure)));
    }
    return match r1.failure {
      Some(w) => {
        println!("VIOLATION property=C01 replay={path}\n  what: {w}");
        1
      }
      None => {
        println!("replay: no violation");
        0
      }
    };
  }
  let max_depth = if quick { 5 } else { 8 };
  let budget_s = if quick { 35.0 } else { 2400.0 };
  let cfg = cfg_for(max_depth);
  let alpha = alphabet1();
  let viol: Mutex<Vec<(String, Value)>> = Mutex::new(Vec::new());
  let mut seen: HashSet<String> = HashSet::new();
  // roots: empty index; one committed segment; two segments with a tombstone (live handle kept)
  let a = |id: &str, v: &str| Op::Add(0, id.into(), v.into());
  let roots: Vec<Vec<Op>> = vec![
    vec![],
    vec![Op::New(0), a("A", "1"), Op::Commit(0)],
    vec![Op::New(0), a("A", "1"), a("B", "1"), Op::Commit(0), a("A", "2"), Op::Commit(0)],
  ];
  let mut frontier: Vec<(Vec<Op>, Model, usize)> = Vec::new();
  for r in roots {
    let o = execute(&cfg, &r);
    if let Some(f) = o.failure {
      vcore::ev::machinery_failure(&format!("root history failed: {}", f.1));
    }
    if seen.insert(o.key.clone()) {
      frontier.push((r, o.model, o.nseg));
    }
  }
  let (mut states, mut transitions, mut cuts, mut images, mut recoveries, mut nontrivial) = (frontier.len() as u64, 0u64, 0u64, 0u64, 0u64, 0u64);
  let mut outcomes: HashSet<String> = HashSet::new();
  let mut depth_done = 0;
  let mut cap_note: Option<String> = None;
  let mut any_capped = false;
  for depth in 1..=max_depth {
    if frontier.is_empty() {
      break;
    }
    let tasks: Vec<Vec<Op>> = frontier
      .iter()
      .flat_map(|(h, m, nseg)| {
        alpha
          .iter()
          .filter(|op| op_allowed(&cfg, m, *nseg, op))
          .map(|op| {
            let mut hh = h.clone();
            hh.push(op.clone());
            hh
          })
          .collect::<Vec<_>>()
      })
      .collect();
    let deadline_hit = std::sync::atomic::AtomicBool::new(false);
    let results: Vec<Option<TransitionResult>> = tasks
      .into_par_iter()
      .map(|h| {
        if rep.elapsed_s() > budget_s {
          deadline_hit.store(true, Ordering::Relaxed);
          return None;
        }
        Some(run_transition(&cfg, &h, &knobs, &viol))
      })
      .collect();
    let mut next = Vec::new();
    let mut complete = true;
    for r in results {
      let Some(r) = r else {
        complete = false;
        continue;
      };
      transitions += 1;
      rep.eval();
      cuts += r.cuts;
      images += r.images;
      recoveries += r.recoveries;
      nontrivial += r.nontrivial_images;
      any_capped |= r.capped;
      outcomes.extend(r.distinct_outcomes.iter().cloned());
      if let Some(s) = r.sample {
        rep.sample(s);
      }
      if let Some(f) = &r.failure {
        if f.starts_with("MACHINERY") {
          vcore::ev::machinery_failure(f);
        }
        continue;
      }
      if seen.insert(r.key) {
        states += 1;
        next.push((r.hist, r.model, r.nseg));
      }
    }
    for (w, case) in viol.lock().drain(..) {
      let (sig, what) = w.split_once('|').unwrap();
      rep.fail(if sig == "none" { None } else { Some(sig) }, what, case);
    }
    if !complete {
      cap_note = Some(format!("wall budget {budget_s}s hit inside depth {depth}; depths < {depth} are complete"));
      break;
    }
    depth_done = depth;
    frontier = next;
    println!("C01 depth {depth}: states={states} transitions={transitions} cuts={cuts} images={images} recoveries={recoveries}");
    if rep.violations() > 0 {
      break;
    }
  }
  if outcomes.len() < 2 && rep.violations() == 0 {
    vcore::ev::machinery_failure("C01 vacuous: fewer than 2 distinct recovery outcomes");
  }
  let cov = vcore::cov! {
    "states" => states,
    "transitions" => transitions,
    "traces_validated_against_impl" => recoveries,
    "crash_cut_positions" => cuts,
    "durable_images_checked" => images,
    "recoveries_executed" => recoveries,
    "distinct_nontrivial" => nontrivial,
    "rule" => "BFS over histories of {new,add(A1|A2|B1),del(A|B),commit,rollback,drop,compact,reopen} on a real FsStorage index, canonical-state dedup; for each transition every syscall boundary of the op is a crash cut, and at each cut every durable image admitted by model M (prefix of unsynced writes per file with torn next write; prefix of unsynced directory ops; fsync pins a file's own entry) is materialised and recovered with the real Index::open + reader + match_all. An image is non-trivial when it differs from the no-crash directory contents. Images are memoised on their recovery-relevant projection (MANIFEST.json, files it names, wal.log); the memo is self-checked by re-execution.",
    "depth_completed" => depth_done,
    "roots" => "empty index; [new add(A1) commit]; [new add(A1) add(B1) commit add(A2) commit] (two segments, one tombstone)",
    "tear_policy" => format!("{:?}", knobs.policy),
    "nonprefix_write_loss" => knobs.nonprefix,
    "image_cap_per_cut_hit" => any_capped,
    "cap_hit" => cap_note,
    "exhaustive" => cap_note.is_none() && !any_capped,
    "distinct_observed_outcomes" => outcomes.len(),
  };
  rep.finish(
    cov,
    vec![
      "durability model M1-M4 of DESIGN §2.4 (ordered directory operations; fsync of a file persists its own directory entry)".into(),
      "syscall log observed by libc interposition in the checking executable; full writes".into(),
      "crashes inside Index::create are out of scope".into(),
    ],
  )
}

pub fn _unused(_: PathBuf) {}
