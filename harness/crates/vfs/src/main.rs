//! vfs <PROPERTY> <quick|thorough> [--replay FILE] — engines that need libc interposition.
mod c02;
mod c03l;
mod copymc;
mod crashmc;
mod fsmodel;
pub mod shim;

use vcore::ev::Tier;

fn main() {
  let args: Vec<String> = std::env::args().collect();
  if args.len() < 3 {
    eprintln!("usage: vfs <PROPERTY> <quick|thorough> [--replay FILE]");
    std::process::exit(2);
  }
  let prop = args[1].as_str();
  let tier = Tier::parse(&args[2]);
  let mut replay = None;
  let mut i = 3;
  while i < args.len() {
    if args[i] == "--replay" && i + 1 < args.len() {
      replay = Some(args[i + 1].clone());
      i += 1;
    }
    i += 1;
  }
  vcore::init_pool();
  vcore::quiet_panics();
  let ctx = crashmc::Ctx { tier, replay };
  let code = match prop {
    "C01" => crashmc::run_c01(&ctx),
    "C02" => c02::run_c02(&ctx),
    "C28" => copymc::run(&ctx),
    "C03" => c03l::run(&ctx),
    _ => {
      eprintln!("unknown property {prop}");
      2
    }
  };
  vcore::world::cleanup_scratch_root();
  std::process::exit(code);
}
