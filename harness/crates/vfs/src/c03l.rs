//! C03, level 2 — storage errors at the system-call boundary.
//!
//! `vmc C03` fails calls of the `Storage` trait; this engine fails the *system calls* below it, so
//! the inside of `FsStorage` (temp file, fsync, rename, directory fsync of `atomic_write`, the
//! append path of the log, file creation of a segment) is part of the explored space: for every
//! state of a BFS over writer histories on a real filesystem index x every enabled operation x
//! every state-changing system call the operation issues (open-for-write / write / pwrite /
//! ftruncate / fsync / rename / unlink / mkdir) x {EIO before the call, EIO after its effect}.
//! Same oracle as level 1 (single faults).

use std::collections::{BTreeMap, HashSet};

use rayon::prelude::*;
use serde_json::{json, Value};

use vcore::ev::Reporter;
use vcore::hist::*;
use vcore::world::*;

use crate::crashmc::Ctx;
use crate::shim::{self, FaultMode};

fn cfg1(depth: usize) -> Config {
  Config { mem: false, positions: true, handles: 1, compactable: true, max_depth: depth, max_segments: 3, max_queue: 2 }
}

fn alphabet1() -> Vec<Op> {
  let mut a = vec![Op::New(0)];
  for (id, v) in [("A", "1"), ("A", "2"), ("B", "1")] {
    a.push(Op::Add(0, id.into(), v.into()));
  }
  a.push(Op::Del(0, "A".into()));
  a.push(Op::Commit(0));
  a.push(Op::Rollback(0));
  a.push(Op::DropH(0));
  a.push(Op::Compact);
  a.push(Op::Reopen);
  a
}

struct Case {
  /// state-changing system calls the operation issued in this run
  sites: usize,
  /// None = the fault index lies beyond the operation's calls
  verdict: Option<Result<(), String>>,
  outcome: String,
  site: String,
  /// the state-changing calls of this run, in order (fault-free run: the fault sites)
  calls: Vec<String>,
}

fn js<T: serde::Serialize>(v: &T) -> String {
  serde_json::to_string(v).unwrap()
}

fn mode_name(m: FaultMode) -> &'static str {
  match m {
    FaultMode::Before => "before",
    FaultMode::After => "after",
  }
}

fn run_case(cfg: &Config, hist: &[Op], plan: Option<(usize, FaultMode)>) -> Case {
  let scratch = Scratch::new("c03l");
  let root = scratch.sub("idx");
  let sid = shim::session_start(root.to_str().unwrap(), false);
  let mut ex = Exec::new_at(cfg, &root);
  let n = hist.len();
  for op in &hist[..n - 1] {
    if let Err(f) = ex.step(op, false) {
      vcore::ev::machinery_failure(&format!("C03 (libc level) prefix failed without any fault: {}", f.1));
    }
  }
  let op = &hist[n - 1];
  let pre = ex.expected();
  let versions = |id: &str, v: &str| version_doc(id, v);
  let _ = shim::session_take_log(sid);
  // index usize::MAX never fires: the fault-free run only counts the calls
  shim::session_set_fault(sid, Some(plan.unwrap_or((usize::MAX, FaultMode::Before))));
  let res = {
    let env = &ex.env;
    let reopen = || env.reopen();
    let live = &mut ex.live;
    vcore::catch(|| live.step(op, &versions, &reopen))
  };
  let (fired, seen) = shim::session_fault_fired(sid);
  shim::session_set_fault(sid, None);
  let log = shim::session_take_log(sid);
  let calls: Vec<String> = log.iter().filter(|o| o.mutating()).map(|o| o.brief()).collect();
  let site = String::new();
  let finish = |c: Case| {
    shim::session_end(sid);
    c
  };
  if plan.is_some() && !fired {
    return finish(Case { sites: seen, verdict: None, outcome: String::new(), site, calls });
  }
  let mut post_model = ex.model.clone();
  post_model.step(op);
  let post = expected_contents(&ex.env.schema, &post_model.committed, &versions);
  let fail = |s: String| Case { sites: seen, verdict: Some(Err(s)), outcome: "violation".into(), site: site.clone(), calls: calls.clone() };
  let okerr = if matches!(res, Ok(Ok(()))) { "Ok" } else { "Err" };
  let res = match res {
    Err(p) => return finish(fail(format!("{} panicked under fault: {p}", op.short()))),
    Ok(r) => r,
  };
  let same = match vcore::catch(|| contents(&ex.live.idx)) {
    Ok(Ok(c)) => c,
    Ok(Err(e)) => return finish(fail(format!("after {} -> {okerr}: a new reader on the same Index fails: {e:#}", op.short()))),
    Err(p) => return finish(fail(format!("reader panicked: {p}"))),
  };
  let reopened = match vcore::catch(|| ex.env.reopen().and_then(|i| contents(&i))) {
    Ok(Ok(c)) => c,
    Ok(Err(e)) => return finish(fail(format!("after {} -> {okerr}: the index cannot be reopened / read: {e:#}", op.short()))),
    Err(p) => return finish(fail(format!("reopen panicked: {p}"))),
  };
  let pre_log = ex.model.log.clone();
  if plan.is_some() {
    if let Err(w) = check_durable_queue(&ex.env, op, res.is_ok(), &pre_log, &post_model.log) {
      return finish(fail(w));
    }
  }
  let outcome;
  match &res {
    Ok(()) => {
      outcome = "ok-applied".to_string();
      if same != post {
        return finish(fail(format!("{} returned Ok under fault but a new reader sees {} instead of {}", op.short(), js(&same), js(&post))));
      }
      if reopened != post {
        return finish(fail(format!("{} returned Ok under fault but after reopening contents are {} instead of {}", op.short(), js(&reopened), js(&post))));
      }
    }
    Err(e) => {
      if plan.is_none() {
        return finish(fail(format!("{} fails without any fault: {e:#}", op.short())));
      }
      if same != pre {
        return finish(fail(format!("{} returned Err ({e:#}) but a new reader sees {} instead of the unchanged {}", op.short(), js(&same), js(&pre))));
      }
      if reopened != pre {
        return finish(fail(format!("{} returned Err ({e:#}) but after reopening contents are {} instead of the unchanged {}", op.short(), js(&reopened), js(&pre))));
      }
      let retry = {
        let env = &ex.env;
        let reopen = || env.reopen();
        let live = &mut ex.live;
        vcore::catch(|| -> anyhow::Result<()> {
          live.step(op, &versions, &reopen)?;
          if let Op::Add(h, _, _) | Op::Del(h, _) = op {
            live.step(&Op::Commit(*h), &versions, &reopen)?;
          }
          Ok(())
        })
      };
      match retry {
        Err(p) => return finish(fail(format!("retry of {} panicked: {p}", op.short()))),
        Ok(Err(e2)) => return finish(fail(format!("{} failed ({e:#}); the retry without faults also failed: {e2:#}", op.short()))),
        Ok(Ok(())) => {}
      }
      let mut m2 = post_model.clone();
      if let Op::Add(h, _, _) | Op::Del(h, _) = op {
        m2.step(&Op::Commit(*h));
      }
      let want = expected_contents(&ex.env.schema, &m2.committed, &versions);
      match vcore::catch(|| contents(&ex.live.idx)) {
        Ok(Ok(c)) if c == want => {}
        Ok(Ok(c)) => return finish(fail(format!("{} failed ({e:#}); after a successful retry contents are {} instead of {}", op.short(), js(&c), js(&want)))),
        Ok(Err(e3)) => return finish(fail(format!("reader after retry failed: {e3:#}"))),
        Err(p) => return finish(fail(format!("reader after retry panicked: {p}"))),
      }
      match vcore::catch(|| ex.env.reopen().and_then(|i| contents(&i))) {
        Ok(Ok(c)) if c == want => {}
        Ok(Ok(c)) => return finish(fail(format!("{} failed ({e:#}); after a successful retry and a reopen contents are {} instead of {}", op.short(), js(&c), js(&want)))),
        Ok(Err(e3)) => return finish(fail(format!("reopen after retry failed: {e3:#}"))),
        Err(p) => return finish(fail(format!("reopen after retry panicked: {p}"))),
      }
      outcome = "err-unchanged-retry-ok".to_string();
    }
  }
  finish(Case { sites: seen, verdict: Some(Ok(())), outcome, site, calls })
}


/// The durable queue: operations in the log after the last commit marker, as (kind, id).
fn durable_queue(env: &Env) -> anyhow::Result<Vec<(String, String)>> {
  let recs = wal_records(env)?;
  let start = recs.iter().rposition(|r| r == "commit").map(|i| i + 1).unwrap_or(0);
  Ok(
    recs[start..]
      .iter()
      .map(|r| {
        let mut it = r.splitn(3, ':');
        (it.next().unwrap_or("").to_string(), it.next().unwrap_or("").to_string())
      })
      .collect(),
  )
}

fn model_queue(log: &[QOp]) -> Vec<(String, String)> {
  log
    .iter()
    .map(|q| match q {
      QOp::Add(id, _) => ("add".to_string(), id.clone()),
      QOp::Del(id) => ("del".to_string(), id.clone()),
    })
    .collect()
}

/// "... with the queued operations still retryable": the queue lives in the log, which is what a
/// later handle (or process) replays. After Err the log must still hold the operations queued
/// before the call (a failed add / delete may or may not have reached it; a failed rollback may
/// or may not have emptied it); after Ok it must hold the model's queue.
fn check_durable_queue(env: &Env, op: &Op, ok: bool, pre_log: &[QOp], post_log: &[QOp]) -> Result<(), String> {
  let got = match durable_queue(env) {
    Ok(g) => g,
    Err(e) => return Err(format!("the log cannot be replayed after {} -> {}: {e:#}", op.short(), if ok { "Ok" } else { "Err" })),
  };
  let pre = model_queue(pre_log);
  let post = model_queue(post_log);
  let mut allowed: Vec<Vec<(String, String)>> = Vec::new();
  if ok {
    allowed.push(post);
  } else {
    allowed.push(pre.clone());
    match op {
      Op::Add(..) | Op::Del(..) => allowed.push(post),
      Op::Rollback(_) => allowed.push(Vec::new()),
      _ => {}
    }
  }
  if allowed.contains(&got) {
    Ok(())
  } else {
    Err(format!(
      "{} returned {} but the log now holds the queued operations {:?}; expected {:?} (a new handle replays the log, so the queued operations are no longer retryable)",
      op.short(),
      if ok { "Ok" } else { "Err" },
      got,
      allowed
    ))
  }
}

struct TaskOut {
  cases: u64,
  fired: u64,
  sites: usize,
  outcomes: HashSet<String>,
  failures: Vec<(String, Value)>,
  site_kinds: BTreeMap<String, u64>,
  sample: Option<Value>,
}

fn site_kind(brief: &str) -> String {
  // fold run-specific parts: uuid-like file names, fd numbers, lengths
  let mut out = String::new();
  let chars: Vec<char> = brief.chars().collect();
  let mut i = 0;
  while i < chars.len() {
    let mut j = i;
    while j < chars.len() && (chars[j].is_ascii_hexdigit() || chars[j] == '-') {
      j += 1;
    }
    if j - i >= 6 {
      out.push('*');
      i = j;
    } else if chars[i].is_ascii_digit() {
      while i < chars.len() && chars[i].is_ascii_digit() {
        i += 1;
      }
      out.push('#');
    } else {
      out.push(chars[i]);
      i += 1;
    }
  }
  out
}

fn run_task(cfg: &Config, hist: &[Op]) -> TaskOut {
  let mut out = TaskOut { cases: 0, fired: 0, sites: 0, outcomes: HashSet::new(), failures: vec![], site_kinds: BTreeMap::new(), sample: None };
  let base = run_case(cfg, hist, None);
  out.sites = base.sites;
  if let Some(Err(w)) = base.verdict {
    out.failures.push((format!("[libc] {}: {w}", hist_str(hist)), json!({"engine": "faultmc-libc", "history": hist, "plan": null})));
    return out;
  }
  for n1 in 0..base.sites {
    for m1 in [FaultMode::Before, FaultMode::After] {
      let mut c = run_case(cfg, hist, Some((n1, m1)));
      c.site = base.calls.get(n1).cloned().unwrap_or_default();
      out.cases += 1;
      let Some(v) = c.verdict else { continue };
      out.fired += 1;
      out.outcomes.insert(c.outcome.clone());
      *out.site_kinds.entry(site_kind(&c.site)).or_default() += 1;
      if out.sample.is_none() && n1 > 3 {
        out.sample = Some(json!({"history": hist_str(hist), "fault": format!("#{n1} {} ({})", c.site, mode_name(m1)), "outcome": c.outcome}));
      }
      if let Err(what) = v {
        out.failures.push((
          format!("[libc] {} with EIO {} system call #{n1} {}: {what}", hist_str(hist), mode_name(m1), c.site),
          json!({"engine": "faultmc-libc", "history": hist, "plan": [n1, mode_name(m1)]}),
        ));
      }
    }
  }
  out
}

pub fn run(ctx: &Ctx) -> i32 {
  let mut rep = Reporter::new("C03", ctx.tier, "fault_enumeration");
  rep.set_merge("libc_level");
  let quick = ctx.tier.is_quick();
  if let Some(path) = &ctx.replay {
    rep.set_replaying(true);
    let v: Value = serde_json::from_slice(&std::fs::read(path).expect("replay file")).expect("json");
    let hist: Vec<Op> = serde_json::from_value(v["case"]["history"].clone()).expect("history");
    let plan = v["case"]["plan"].as_array().map(|a| {
      let n = a[0].as_u64().unwrap() as usize;
      let m = if a[1].as_str() == Some("after") { FaultMode::After } else { FaultMode::Before };
      (n, m)
    });
    let cfg = cfg1(hist.len());
    let a = run_case(&cfg, &hist, plan);
    let b = run_case(&cfg, &hist, plan);
    let va = a.verdict.map(|v| v.err());
    let vb = b.verdict.map(|v| v.err());
    if va.as_ref().map(|x| x.is_some()) != vb.as_ref().map(|x| x.is_some()) {
      vcore::ev::machinery_failure("NONDETERMINISM on replay");
    }
    let base = run_case(&cfg, &hist, None);
    let site = plan.and_then(|p| base.calls.get(p.0).cloned()).unwrap_or_default();
    println!("replay {} plan {:?} site {}", hist_str(&hist), plan.map(|p| (p.0, mode_name(p.1))), site);
    return match va {
      Some(Some(w)) => {
        println!("VIOLATION property=C03 replay={path}\n  what: {w}");
        1
      }
      _ => {
        println!("replay: no violation");
        0
      }
    };
  }
  let max_depth = if quick { 2 } else { 4 };
  let budget = if quick { 25.0 } else { 1800.0 };
  let cfg = cfg1(max_depth);
  let alpha = alphabet1();
  let a = |id: &str, v: &str| Op::Add(0, id.into(), v.into());
  let roots: Vec<Vec<Op>> = vec![
    vec![],
    vec![Op::New(0), a("A", "1"), Op::Commit(0)],
    vec![Op::New(0), a("A", "1"), a("B", "1"), Op::Commit(0), a("A", "2"), Op::Commit(0)],
    // queued operations and an open handle: depth 1 already faults inside non-trivial commits
    vec![Op::New(0), a("A", "1"), Op::Commit(0), a("B", "1"), Op::Del(0, "A".into())],
    // a fresh handle over a non-empty log: its own append cursor has not moved yet
    vec![Op::New(0), a("A", "1"), Op::Commit(0), a("B", "1"), Op::Del(0, "A".into()), Op::DropH(0), Op::New(0)],
  ];
  let mut seen: HashSet<String> = HashSet::new();
  let mut frontier: Vec<(Vec<Op>, Model, usize)> = Vec::new();
  for r in roots {
    let o = execute(&cfg, &r);
    // roots are never merged: the last one equals another in the model (same contents, queue and
    // handle state) but differs in the implementation (a replayed vs a self-written log)
    seen.insert(o.key.clone());
    frontier.push((r, o.model, o.nseg));
  }
  let mut states = frontier.len() as u64;
  let (mut transitions, mut cases, mut fired) = (0u64, 0u64, 0u64);
  let mut outcomes: HashSet<String> = HashSet::new();
  let mut site_kinds: BTreeMap<String, u64> = BTreeMap::new();
  let mut sites_by_op: BTreeMap<String, u64> = BTreeMap::new();
  let mut depth_done = 0;
  let mut cap: Option<String> = None;
  'outer: for depth in 1..=max_depth {
    let tasks: Vec<Vec<Op>> = frontier
      .iter()
      .flat_map(|(h, m, nseg)| {
        alpha
          .iter()
          .filter(|op| op_allowed(&cfg, m, *nseg, op) && !matches!(op, Op::DropH(_)))
          .map(|op| {
            let mut hh = h.clone();
            hh.push(op.clone());
            hh
          })
          .collect::<Vec<_>>()
      })
      .collect();
    let timed_out = std::sync::atomic::AtomicBool::new(false);
    let outs: Vec<Option<(Vec<Op>, TaskOut)>> = tasks
      .into_par_iter()
      .map(|h| {
        if rep.elapsed_s() > budget {
          timed_out.store(true, std::sync::atomic::Ordering::Relaxed);
          return None;
        }
        let o = run_task(&cfg, &h);
        Some((h, o))
      })
      .collect();
    let mut next = Vec::new();
    for (h, m, nseg) in &frontier {
      for op in alpha.iter().filter(|op| op_allowed(&cfg, m, *nseg, op)) {
        let mut hh = h.clone();
        hh.push(op.clone());
        let o = execute(&cfg, &hh);
        if o.failure.is_none() && seen.insert(o.key) {
          states += 1;
          next.push((hh, o.model, o.nseg));
        }
      }
    }
    for o in outs {
      let Some((h, t)) = o else { continue };
      transitions += 1;
      rep.add_evals(t.cases);
      cases += t.cases;
      fired += t.fired;
      outcomes.extend(t.outcomes);
      *sites_by_op.entry(h.last().unwrap().short()).or_default() += t.sites as u64;
      for (k, v) in t.site_kinds {
        *site_kinds.entry(k).or_default() += v;
      }
      if let Some(s) = t.sample {
        rep.sample(s);
      }
      for (what, case) in t.failures {
        rep.fail(None, &what, case);
      }
    }
    if timed_out.load(std::sync::atomic::Ordering::Relaxed) {
      cap = Some(format!("wall budget {budget}s hit inside depth {depth}"));
      break 'outer;
    }
    depth_done = depth;
    frontier = next;
    println!("C03 libc level depth {depth}: states={states} transitions={transitions} fault_cases={cases} fired={fired}");
    if rep.violations() > 0 {
      break;
    }
  }
  if fired < 2 {
    vcore::ev::machinery_failure("C03 (libc level) vacuous: no fault fired");
  }
  let cov = vcore::cov! {
    "distinct_nontrivial" => fired,
    "rule" => "for every state of a BFS over single-handle histories on a real filesystem index (roots: empty, one segment, two segments + tombstone, one segment + queued add and delete with the queueing handle alive / replaced by a fresh one) and every enabled operation: the operation is executed once per state-changing system call it issues under the index directory (open for writing / creating, write, pwrite, writev, ftruncate, fsync, fdatasync, rename, unlink, mkdir, rmdir - interposed at the libc boundary of this process), with EIO returned before the call or after its effect. Err => a new reader on the same Index and a reopened index show the pre-state, and a retry without faults succeeds with the post-state (also after a reopen); Ok => both views show the post-state; never a panic. In both cases the operations the log holds after the call (what a later handle replays) must be the queue of the model.",
    "states" => states,
    "transitions" => transitions,
    "single_fault_cases_fired" => fired,
    "depth_completed" => depth_done,
    "distinct_observed_outcomes" => outcomes.iter().cloned().collect::<Vec<_>>(),
    "system_calls_by_last_op" => sites_by_op,
    "fault_sites_by_kind" => site_kinds,
    "cap_hit" => cap,
    "exhaustive" => cap.is_none(),
  };
  rep.finish(
    cov,
    vec![
      "libc level: a failing system call returns EIO either without or after performing its effect (a write is not torn by the fault); reads are not failed".into(),
    ],
  )
}
