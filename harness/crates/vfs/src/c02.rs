//! C02 — queued operations survive crashes exactly once (nested crash exploration).

use std::collections::{BTreeMap, HashMap, HashSet};
use std::path::Path;
use std::sync::atomic::{AtomicU64, Ordering};

use parking_lot::Mutex;
use rayon::prelude::*;
use serde_json::{json, Value};

use searchlite_core::api::types::StorageType;
use searchlite_core::api::Index;
use vcore::ev::Reporter;
use vcore::hist::*;
use vcore::world::*;

use crate::crashmc::{hex, manifest_refs, Ctx};
use crate::fsmodel::*;
use crate::shim::{self, FsOp};

#[derive(Clone, Debug, PartialEq, Eq, Hash)]
pub struct MState {
  pub committed: BTreeMap<String, String>,
  pub log: Vec<QOp>,
  /// length of the prefix of `log` that was followed by a successful WAL sync
  pub synced: usize,
}

fn qop_str(q: &QOp) -> String {
  match q {
    QOp::Add(id, v) => format!("add:{id}:{}", version_doc(id, v)["body"]),
    QOp::Del(id) => format!("del:{id}"),
  }
}

fn parse_rec(s: &str) -> Option<QOp> {
  for id in ["A", "B"] {
    for v in ["1", "2"] {
      let q = QOp::Add(id.into(), v.into());
      if qop_str(&q) == s {
        return Some(q);
      }
    }
    let q = QOp::Del(id.into());
    if qop_str(&q) == s {
      return Some(q);
    }
  }
  None
}

fn apply(c: &BTreeMap<String, String>, q: &[QOp]) -> BTreeMap<String, String> {
  let mut c = c.clone();
  Model::apply_queue(&mut c, q);
  c
}

fn expected(c: &BTreeMap<String, String>) -> BTreeMap<String, Value> {
  let sch = schema_s3(true);
  expected_contents(&sch, c, &|id: &str, v: &str| version_doc(id, v))
}

#[derive(Debug, Clone, PartialEq)]
pub struct Rec2 {
  pub err: Option<String>,
  pub contents: BTreeMap<String, Value>,
  pub pending: Vec<String>,
  pub after_commit: BTreeMap<String, Value>,
}

fn recover_c02(root: &Path) -> Rec2 {
  let mut out = Rec2 { err: None, contents: BTreeMap::new(), pending: vec![], after_commit: BTreeMap::new() };
  let r = vcore::catch(|| -> Result<(), String> {
    let idx = fs_open(root).map_err(|e| format!("Index::open failed: {e:#}"))?;
    out.contents = contents(&idx).map_err(|e| format!("reader/search failed: {e:#}"))?;
    let env = Env { schema: schema_s3(true), root: root.to_path_buf(), mem: None, positions: true, _scratch: None };
    let recs = wal_records(&env).map_err(|e| format!("wal replay failed: {e:#}"))?;
    // pending = records after the last commit marker
    let mut pend: Vec<String> = Vec::new();
    for r in recs {
      if r == "commit" {
        pend.clear();
      } else {
        pend.push(r);
      }
    }
    out.pending = pend;
    let mut w = idx.writer().map_err(|e| format!("new writer failed: {e:#}"))?;
    w.commit().map_err(|e| format!("commit of recovered queue failed: {e:#}"))?;
    drop(w);
    out.after_commit = contents(&idx).map_err(|e| format!("reader after commit failed: {e:#}"))?;
    Ok(())
  });
  match r {
    Ok(Ok(())) => {}
    Ok(Err(e)) => out.err = Some(e),
    Err(p) => out.err = Some(format!("panic: {p}")),
  }
  out
}

/// The C02 oracle for one crash. Returns the model state after the crash, or what is wrong.
fn judge(pre: &MState, op: Option<&Op>, post: &MState, at_end: bool, rec: &Rec2) -> Result<MState, String> {
  if let Some(e) = &rec.err {
    return Err(format!("recovery failed: {e}"));
  }
  let exp_pre = expected(&pre.committed);
  let exp_post = expected(&post.committed);
  let is_pre = rec.contents == exp_pre;
  let is_post = rec.contents == exp_post;
  let commit_like = matches!(op, Some(Op::Commit(_)) | Some(Op::Compact));
  let committed = if at_end {
    if !is_post {
      return Err(format!("contents {} are not the post-state {}", js(&rec.contents), js(&exp_post)));
    }
    post.committed.clone()
  } else if is_pre {
    pre.committed.clone()
  } else if is_post && commit_like {
    post.committed.clone()
  } else {
    return Err(format!("contents {} are neither pre {} nor (in-flight) post {}", js(&rec.contents), js(&exp_pre), js(&exp_post)));
  };
  // recovered queue
  let mut r: Vec<QOp> = Vec::new();
  for s in &rec.pending {
    match parse_rec(s) {
      Some(q) => r.push(q),
      None => return Err(format!("recovered a record that was never queued: {s}")),
    }
  }
  // the full queue that may have reached storage, and the part that must have
  let (qfull, lower): (Vec<QOp>, usize) = match op {
    Some(Op::Add(..)) | Some(Op::Del(..)) => (post.log.clone(), if at_end { post.synced } else { pre.synced }),
    Some(Op::Rollback(_)) => (pre.log.clone(), 0),
    Some(Op::Commit(_)) => (pre.log.clone(), if committed == pre.committed && !at_end { pre.synced } else { 0 }),
    _ => (post.log.clone(), if at_end { post.synced } else { pre.synced.min(post.synced) }),
  };
  let is_prefix = r.len() <= qfull.len() && qfull[..r.len()] == r[..];
  let not_prefix = || {
    format!(
      "recovered queue {:?} is not a prefix of the queued operations {:?}",
      rec.pending,
      qfull.iter().map(qop_str).collect::<Vec<_>>()
    )
  };
  if matches!(op, Some(Op::Rollback(_))) && at_end {
    if !r.is_empty() {
      return Err(format!("rolled-back operations recovered after rollback returned: {:?}", rec.pending));
    }
  } else if matches!(op, Some(Op::Commit(_))) {
    if !is_prefix {
      return Err(not_prefix());
    }
    // (A) the batch is not applied yet: every synced operation must still be queued;
    // (B) the batch is applied: whatever is replayed must not change contents.
    let a_ok = is_pre && !at_end && r.len() >= pre.synced.min(qfull.len());
    let b_ok = is_post && apply(&post.committed, &r) == post.committed;
    if !a_ok && !b_ok {
      if is_post && !is_pre {
        return Err(format!("re-applying recovered queue {:?} changes committed contents", rec.pending));
      }
      return Err(format!(
        "recovered queue {:?} lost operations that were followed by a successful log sync (synced prefix: {:?})",
        rec.pending,
        qfull[..pre.synced.min(qfull.len())].iter().map(qop_str).collect::<Vec<_>>()
      ));
    }
  } else {
    if !is_prefix {
      return Err(not_prefix());
    }
    if r.len() < lower.min(qfull.len()) {
      return Err(format!(
        "recovered queue {:?} lost operations that were followed by a successful log sync (synced prefix: {:?})",
        rec.pending,
        qfull[..lower.min(qfull.len())].iter().map(qop_str).collect::<Vec<_>>()
      ));
    }
  }
  // committing the recovered queue gives the crash-free result
  let want = expected(&apply(&committed, &r));
  if rec.after_commit != want {
    return Err(format!("after committing the recovered queue contents are {} but the model says {}", js(&rec.after_commit), js(&want)));
  }
  Ok(MState { committed, synced: r.len(), log: r })
}

fn js<T: serde::Serialize>(v: &T) -> String {
  serde_json::to_string(v).unwrap()
}

pub struct Shared {
  pub seen: Mutex<HashSet<u64>>,
  pub violations: Mutex<Vec<(String, Value)>>,
  pub recoveries: AtomicU64,
  pub images: AtomicU64,
  pub cuts: AtomicU64,
  pub scripts: AtomicU64,
  pub nested_states: AtomicU64,
  pub outcomes: Mutex<HashSet<String>>,
  pub nontrivial: AtomicU64,
  pub policy: TearPolicy,
  pub nonprefix: bool,
  pub image_cap: usize,
  pub capped: std::sync::atomic::AtomicBool,
  pub deadline_s: f64,
  pub start: std::time::Instant,
  pub timed_out: std::sync::atomic::AtomicBool,
  pub nested_len: usize,
  pub sample: Mutex<Vec<Value>>,
}

/// Quick tier: one maximal script per kind of post-recovery behaviour.
fn nested_scripts_quick() -> Vec<Vec<Op>> {
  let add = Op::Add(0, "B".into(), "2".into());
  let del = Op::Del(0, "A".into());
  vec![
    vec![Op::New(0), Op::Commit(0)],
    vec![Op::New(0), add.clone(), Op::DropH(0)],
    vec![Op::New(0), del.clone(), add.clone(), Op::Commit(0)],
    vec![Op::New(0), Op::Rollback(0), del, Op::Commit(0)],
    vec![Op::New(0), add, Op::Rollback(0)],
  ]
}

fn nested_scripts(max_len: usize) -> Vec<Vec<Op>> {
  if max_len == 0 {
    return nested_scripts_quick();
  }
  let tail = [
    Op::Add(0, "B".into(), "2".into()),
    Op::Del(0, "A".into()),
    Op::DropH(0),
    Op::Commit(0),
    Op::Rollback(0),
  ];
  let mut out: Vec<Vec<Op>> = vec![vec![Op::New(0)]];
  let mut layer: Vec<Vec<Op>> = vec![vec![Op::New(0)]];
  for _ in 1..max_len {
    let mut next = Vec::new();
    for s in &layer {
      if matches!(s.last(), Some(Op::DropH(_))) {
        continue;
      }
      for t in &tail {
        let mut x = s.clone();
        x.push(t.clone());
        next.push(x);
      }
    }
    out.extend(next.iter().cloned());
    layer = next;
  }
  // every script that does not already end in commit / drop is also run with a final commit, so
  // that the state reached after the crash is committed and reopened once more
  let extended: Vec<Vec<Op>> = out
    .iter()
    .filter(|s| s.len() == max_len && !matches!(s.last(), Some(Op::Commit(_)) | Some(Op::DropH(_))))
    .map(|s| {
      let mut x = s.clone();
      x.push(Op::Commit(0));
      x
    })
    .collect();
  out.extend(extended);
  // keep only maximal scripts: every prefix is covered by the cut enumeration of a longer one
  let all = out.clone();
  out.retain(|s| !all.iter().any(|o| o.len() > s.len() && o[..s.len()] == s[..]));
  out
}

fn sync_fold(ms: &MState, handles_nonempty: bool, op: &Op, post_log: &[QOp]) -> usize {
  match op {
    Op::DropH(_) | Op::Reopen => {
      if handles_nonempty {
        post_log.len()
      } else {
        ms.synced
      }
    }
    Op::Commit(_) | Op::Rollback(_) => {
      if post_log.is_empty() {
        0
      } else {
        ms.synced
      }
    }
    _ => ms.synced.min(post_log.len()),
  }
}

struct OpSeg {
  op: Op,
  pre: MState,
  post: MState,
  begin: usize,
  end: usize,
}

/// Run `ops` on the index at `root` (created fresh when `base` is None, else restored from the
/// image), enumerate crashes inside ops[enumerate_from..], recurse `depth_left` more crashes.
#[allow(clippy::too_many_arguments)]
fn run_and_enumerate(
  root: &Path,
  base: Option<&Image>,
  start: &MState,
  ops: &[Op],
  enumerate_from: usize,
  depth_left: usize,
  sh: &Shared,
  trail: &str,
) -> Result<Option<(String, Model, usize)>, String> {
  let root_s = root.to_str().unwrap().to_string();
  let cfg = Config { mem: false, positions: true, handles: 1, compactable: true, max_depth: 0, max_segments: 3, max_queue: 2 };
  if let Some(img) = base {
    materialise(root, img).map_err(|e| format!("MACHINERY: materialise: {e}"))?;
  } else {
    let _ = std::fs::remove_dir_all(root);
  }
  let sid = shim::session_start(&root_s, false);
  let mut ex = match base {
    None => Exec::new_at(&cfg, root),
    Some(_) => {
      let mut o = opts(root, StorageType::Filesystem);
      o.enable_positions = true;
      let idx = match Index::open(o) {
        Ok(i) => i,
        Err(e) => {
          let _ = shim::session_end(sid);
          return Err(format!("MACHINERY: reopen of a validated image failed: {e:#}"));
        }
      };
      let env = Env { schema: schema_s3(true), root: root.to_path_buf(), mem: None, positions: true, _scratch: None };
      let mut e = Exec::from_parts_pub(&cfg, env, idx);
      e.model.committed = start.committed.clone();
      e.model.log = start.log.clone();
      e
    }
  };
  let mut ms = start.clone();
  let mut segs: Vec<OpSeg> = Vec::new();
  let mut fail: Option<String> = None;
  for (j, op) in ops.iter().enumerate() {
    let begin = shim::session_log_len(sid);
    let nonempty = match op {
      Op::DropH(h) => ex.model.handles[*h].as_ref().map(|q| !q.is_empty()).unwrap_or(false),
      Op::Reopen => ex.model.handles.iter().any(|h| h.as_ref().map(|q| !q.is_empty()).unwrap_or(false)),
      _ => false,
    };
    if !ex.model.enabled(op) {
      break;
    }
    if let Err(f) = ex.step(op, j >= enumerate_from) {
      fail = Some(format!("{trail} then [{}]: fails without a crash: {}", hist_str(&ops[..=j]), f.1));
      break;
    }
    let end = shim::session_log_len(sid);
    let post = MState {
      committed: ex.model.committed.clone(),
      log: ex.model.log.clone(),
      synced: sync_fold(&ms, nonempty, op, &ex.model.log),
    };
    segs.push(OpSeg { op: op.clone(), pre: ms.clone(), post: post.clone(), begin, end });
    ms = post;
  }
  let ret = if fail.is_none() && base.is_none() { Some((ex.key(), ex.model.clone(), ex.nseg)) } else { None };
  let log = shim::session_take_log(sid);
  shim::session_set_record(sid, false);
  let Exec { live, .. } = ex;
  drop(live);
  let _ = shim::session_end(sid);
  if let Some(f) = fail {
    sh.violations.lock().push((format!("none|{f}"), json!({"engine": "crashmc-nested", "trail": trail, "ops": ops})));
    return Ok(None);
  }
  sh.scripts.fetch_add(1, Ordering::Relaxed);

  let mut fsm = match base {
    Some(img) => FsModel::from_image(&root_s, img),
    None => FsModel::new(&root_s),
  };
  let is_changing = |op: &FsOp| {
    matches!(op, FsOp::Open { .. } | FsOp::Write { .. } | FsOp::Truncate { .. } | FsOp::Fsync { .. } | FsOp::Rename { .. } | FsOp::Unlink { .. })
  };
  let mut memo: HashMap<u64, Rec2> = HashMap::new();
  let mut pos = 0usize;
  for (j, seg) in segs.iter().enumerate() {
    // replay up to the beginning of this op
    while pos < seg.begin {
      fsm.step(&log[pos]).map_err(|e| format!("MACHINERY: model replay: {e}"))?;
      pos += 1;
    }
    if j < enumerate_from {
      continue;
    }
    let last_changing = (seg.begin..seg.end).rev().find(|i| is_changing(&log[*i]));
    let mut prev_fp: Option<u64> = None;
    // cut positions: before the first syscall of the op, then after every state-changing one
    let mut cut_points: Vec<Option<usize>> = vec![None];
    cut_points.extend((seg.begin..seg.end).filter(|i| is_changing(&log[*i])).map(Some));
    for cp in cut_points {
      if let Some(i) = cp {
        while pos <= i {
          fsm.step(&log[pos]).map_err(|e| format!("MACHINERY: model replay: {e}"))?;
          pos += 1;
        }
      }
      if sh.start.elapsed().as_secs_f64() > sh.deadline_s {
        sh.timed_out.store(true, Ordering::Relaxed);
        return Ok(ret);
      }
      let at_end = match (cp, last_changing) {
        (Some(i), Some(l)) => i == l,
        (None, None) => true,
        _ => false,
      };
      sh.cuts.fetch_add(1, Ordering::Relaxed);
      // the first crash of a chain uses the tier's tear policy; later crashes use the 3-point policy
      let pol = if base.is_none() { sh.policy } else { TearPolicy::Quick };
      let (images, capped) = fsm.images(pol, sh.nonprefix, sh.image_cap, "MANIFEST.json", &["wal.log", "MANIFEST.tmp"], &|m: &[u8]| manifest_refs(root, m));
      if capped {
        sh.capped.store(true, Ordering::Relaxed);
      }
      let fp = {
        use std::hash::{Hash, Hasher};
        let mut h = std::collections::hash_map::DefaultHasher::new();
        for im in &images {
          hash_image(im).hash(&mut h);
        }
        h.finish()
      };
      if prev_fp == Some(fp) && !at_end {
        continue;
      }
      prev_fp = Some(fp);
      let latest = fsm.latest_image();
      for img in images {
        sh.images.fetch_add(1, Ordering::Relaxed);
        let nontrivial = img.iter().any(|(n, c)| latest.get(n) != Some(c)) || img.len() != latest.iter().filter(|(n, _)| img.contains_key(*n)).count();
        if nontrivial {
          sh.nontrivial.fetch_add(1, Ordering::Relaxed);
        }
        let hk = hash_image(&img);
        let rec = match memo.get(&hk) {
          Some(r) => r.clone(),
          None => {
            materialise(root, &img).map_err(|e| format!("MACHINERY: materialise: {e}"))?;
            sh.recoveries.fetch_add(1, Ordering::Relaxed);
            let r = recover_c02(root);
            memo.insert(hk, r.clone());
            r
          }
        };
        let cut_desc = match cp {
          Some(i) => format!("after syscall #{} {}", i - seg.begin, log[i].brief()),
          None => "before its first syscall".to_string(),
        };
        match judge(&seg.pre, Some(&seg.op), &seg.post, at_end, &rec) {
          Ok(ms2) => {
            sh.outcomes.lock().insert(format!("{:?}|{}", rec.pending, js(&rec.contents)));
            {
              let mut s = sh.sample.lock();
              if s.len() < 4 && !trail.is_empty() && nontrivial {
                s.push(json!({"trail": trail, "ops": hist_str(ops), "crash_in": seg.op.short(), "cut": cut_desc,
                  "recovered_queue": rec.pending, "recovered_contents_ids": rec.contents.keys().collect::<Vec<_>>() }));
              }
            }
            if depth_left > 0 {
              let t2 = format!("{trail}[{}] CRASH in {} {} -> queue {:?}; ", hist_str(&ops[..=j]), seg.op.short(), cut_desc, rec.pending);
              explore_from_image(root, &img, &ms2, depth_left - 1, sh, &t2)?;
            }
          }
          Err(why) => {
            let files: BTreeMap<String, String> = img.iter().map(|(n, c)| (n.clone(), hex(c))).collect();
            let what = format!("{trail}[{}] crash in {} {}{}: {why}", hist_str(&ops[..=j]), seg.op.short(), cut_desc, if at_end { " (op had returned)" } else { "" });
            let sig = classify(&why, &rec, &seg.pre);
            sh.violations.lock().push((
              format!("{sig}|{what}"),
              json!({"engine": "crashmc-nested", "trail": trail, "ops": ops, "crash_op_index": j, "cut": cut_desc,
                     "image_hex": files, "recovered_queue": rec.pending}),
            ));
          }
        }
      }
    }
  }
  Ok(ret)
}

fn classify(why: &str, rec: &Rec2, pre: &MState) -> &'static str {
  let _ = (rec, pre);
  if why.contains("lost operations that were followed by a successful log sync") {
    // H1: a torn, never-synced tail survives a crash; later synced appends land behind it and
    // replay stops at the torn record.
    return "C02-append-after-torn-tail";
  }
  "none"
}

fn explore_from_image(root: &Path, img: &Image, ms: &MState, depth_left: usize, sh: &Shared, trail: &str) -> Result<(), String> {
  let key = {
    use std::hash::{Hash, Hasher};
    let mut h = std::collections::hash_map::DefaultHasher::new();
    img.hash(&mut h);
    ms.hash(&mut h);
    depth_left.hash(&mut h);
    h.finish()
  };
  if !sh.seen.lock().insert(key) {
    return Ok(());
  }
  sh.nested_states.fetch_add(1, Ordering::Relaxed);
  for script in nested_scripts(sh.nested_len) {
    if sh.timed_out.load(Ordering::Relaxed) {
      return Ok(());
    }
    run_and_enumerate(root, Some(img), ms, &script, 0, depth_left, sh, trail)?;
  }
  Ok(())
}

pub fn run_c02(ctx: &Ctx) -> i32 {
  let mut rep = Reporter::new("C02", ctx.tier, "model_checking");
  let scratch = Scratch::new("selftest");
  if let Err(e) = shim::selftest(&scratch.path) {
    vcore::ev::machinery_failure(&format!("fsshim self-test failed: {e}"));
  }
  let quick = ctx.tier.is_quick();
  let sh = Shared {
    seen: Mutex::new(HashSet::new()),
    violations: Mutex::new(Vec::new()),
    recoveries: AtomicU64::new(0),
    images: AtomicU64::new(0),
    cuts: AtomicU64::new(0),
    scripts: AtomicU64::new(0),
    nested_states: AtomicU64::new(0),
    outcomes: Mutex::new(HashSet::new()),
    nontrivial: AtomicU64::new(0),
    policy: if quick { TearPolicy::Quick } else { TearPolicy::Full },
    nonprefix: false,
    image_cap: 100000,
    capped: std::sync::atomic::AtomicBool::new(false),
    deadline_s: if quick { 40.0 } else { 2400.0 },
    start: std::time::Instant::now(),
    timed_out: std::sync::atomic::AtomicBool::new(false),
    nested_len: if quick { 0 } else { 3 },
    sample: Mutex::new(Vec::new()),
  };
  let nesting = if quick { 2 } else { 3 }; // number of crashes in a row
  if let Some(path) = &ctx.replay {
    rep.set_replaying(true);
    let v: Value = serde_json::from_slice(&std::fs::read(path).expect("replay file")).expect("json");
    let hist: Vec<Op> = serde_json::from_value(v["case"]["root_history"].clone()).expect("root_history");
    let sc = Scratch::new("c02r");
    let root = sc.sub("idx");
    let start = MState { committed: BTreeMap::new(), log: vec![], synced: 0 };
    for round in 0..2 {
      sh.seen.lock().clear();
      if let Err(e) = run_and_enumerate(&root, None, &start, &hist, hist.len() - 1, nesting - 1, &sh, "") {
        vcore::ev::machinery_failure(&e);
      }
      if round == 0 {
        let n = sh.violations.lock().len();
        println!("replay round 1: {n} violating crash scenarios below history [{}]", hist_str(&hist));
      }
    }
    let v = sh.violations.lock();
    if v.is_empty() {
      println!("replay: no violation");
      return 0;
    }
    if v.len() % 2 != 0 {
      vcore::ev::machinery_failure("NONDETERMINISM on replay: the two rounds found different numbers of violations");
    }
    println!("VIOLATION property=C02 replay={path}\n  what: {}", v[0].0);
    return 1;
  }
  let max_depth = if quick { 1 } else { 3 };
  let cfg = Config { mem: false, positions: true, handles: 1, compactable: true, max_depth, max_segments: 3, max_queue: 2 };
  let alpha: Vec<Op> = {
    let mut a = vec![Op::New(0)];
    for (id, v) in [("A", "1"), ("A", "2"), ("B", "1")] {
      a.push(Op::Add(0, id.into(), v.into()));
    }
    a.push(Op::Del(0, "A".into()));
    a.push(Op::Commit(0));
    a.push(Op::Rollback(0));
    a.push(Op::DropH(0));
    a.push(Op::Compact);
    a.push(Op::Reopen);
    a
  };
  let a = |id: &str, v: &str| Op::Add(0, id.into(), v.into());
  // roots: empty; one segment; two segments + tombstone; and the same with operations queued, so
  // that already the first BFS level contains crashes inside non-trivial commits and rollbacks
  let roots: Vec<Vec<Op>> = vec![
    vec![],
    vec![Op::New(0), a("A", "1"), Op::Commit(0)],
    vec![Op::New(0), a("A", "1"), a("B", "1"), Op::Commit(0), a("A", "2"), Op::Commit(0)],
    vec![Op::New(0), a("A", "1")],
    vec![Op::New(0), a("A", "1"), Op::Commit(0), a("B", "1")],
    vec![Op::New(0), a("A", "1"), Op::Commit(0), a("A", "2"), Op::Del(0, "A".into())],
    vec![Op::New(0), a("A", "1"), a("B", "1"), Op::Commit(0), a("A", "2"), Op::Commit(0), Op::Del(0, "B".into())],
  ];
  let mut seen: HashSet<String> = HashSet::new();
  let mut frontier: Vec<(Vec<Op>, Model, usize)> = Vec::new();
  for r in roots {
    let o = execute(&cfg, &r);
    if let Some(f) = o.failure {
      vcore::ev::machinery_failure(&format!("root history failed: {}", f.1));
    }
    if seen.insert(o.key.clone()) {
      frontier.push((r, o.model, o.nseg));
    }
  }
  let mut states = frontier.len() as u64;
  let mut transitions = 0u64;
  let mut depth_done = 0;
  for depth in 1..=max_depth {
    let tasks: Vec<Vec<Op>> = frontier
      .iter()
      .flat_map(|(h, m, nseg)| {
        alpha
          .iter()
          .filter(|op| op_allowed(&cfg, m, *nseg, op))
          .map(|op| {
            let mut hh = h.clone();
            hh.push(op.clone());
            hh
          })
          .collect::<Vec<_>>()
      })
      .collect();
    let results: Vec<(Vec<Op>, Result<Option<(String, Model, usize)>, String>)> = tasks
      .into_par_iter()
      .map(|h| {
        let sc = Scratch::new("c02");
        let root = sc.sub("idx");
        let start = MState { committed: BTreeMap::new(), log: vec![], synced: 0 };
        if sh.timed_out.load(Ordering::Relaxed) {
          return (h, Ok(None));
        }
        let r = run_and_enumerate(&root, None, &start, &h, h.len() - 1, nesting - 1, &sh, "");
        (h, r)
      })
      .collect();
    let mut next = Vec::new();
    for (h, r) in results {
      transitions += 1;
      rep.eval();
      match r {
        Err(e) => vcore::ev::machinery_failure(&e),
        Ok(Some((key, model, nseg))) => {
          if seen.insert(key) {
            states += 1;
            next.push((h, model, nseg));
          }
        }
        Ok(None) => {}
      }
    }
    // attach the root history to each violation's case for replay
    for (w, mut case) in sh.violations.lock().drain(..) {
      let (sig, what) = w.split_once('|').unwrap();
      if case.get("trail").and_then(|t| t.as_str()) == Some("") {
        case["root_history"] = case["ops"].clone();
      } else {
        // the root history is the first bracketed history in the trail; keep ops for reference
        case["root_history"] = root_history_of(case["trail"].as_str().unwrap_or(""));
      }
      rep.fail(if sig == "none" { None } else { Some(sig) }, what, case);
    }
    println!(
      "C02 depth {depth}: states={states} transitions={transitions} nested_states={} scripts={} cuts={} images={} recoveries={}",
      sh.nested_states.load(Ordering::Relaxed),
      sh.scripts.load(Ordering::Relaxed),
      sh.cuts.load(Ordering::Relaxed),
      sh.images.load(Ordering::Relaxed),
      sh.recoveries.load(Ordering::Relaxed)
    );
    if sh.timed_out.load(Ordering::Relaxed) {
      break;
    }
    depth_done = depth;
    frontier = next;
    if rep.violations() > 0 {
      break;
    }
  }
  let outcomes = sh.outcomes.lock().len();
  if outcomes < 2 && rep.violations() == 0 && rep.known_cases() == 0 {
    vcore::ev::machinery_failure("C02 vacuous: fewer than 2 distinct recovery outcomes");
  }
  for s in sh.sample.lock().iter() {
    rep.sample(s.clone());
  }
  let timed_out = sh.timed_out.load(Ordering::Relaxed);
  let cov = vcore::cov! {
    "states" => states + sh.nested_states.load(Ordering::Relaxed),
    "transitions" => transitions + sh.scripts.load(Ordering::Relaxed),
    "traces_validated_against_impl" => sh.recoveries.load(Ordering::Relaxed),
    "crash_cut_positions" => sh.cuts.load(Ordering::Relaxed),
    "durable_images_checked" => sh.images.load(Ordering::Relaxed),
    "recoveries_executed" => sh.recoveries.load(Ordering::Relaxed),
    "nested_crash_states" => sh.nested_states.load(Ordering::Relaxed),
    "crashes_in_a_row" => nesting,
    "post_recovery_scripts" => if sh.nested_len == 0 { "5 curated maximal scripts: [new commit] [new add drop] [new del add commit] [new rollback del commit] [new add rollback]".to_string() } else { format!("all maximal scripts of length <= {} over {{new, add, del, drop, commit, rollback}}, plus a final commit", sh.nested_len) },
    "distinct_nontrivial" => sh.nontrivial.load(Ordering::Relaxed),
    "rule" => "level 0: BFS over writer histories (as C01), crash at every syscall boundary of the last op, every durable image of model M; each recovered image (deduplicated on image bytes + model state + remaining depth) becomes the start of every maximal post-recovery script over {new, add(B2), del(A), drop(sync), commit, rollback}, itself crashed at every syscall boundary of every op, recursively. Oracle per crash: reopen works; contents are the pre or in-flight-commit post state; the recovered queue (Wal::last_pending_ops) is a prefix of the queued operations containing every operation followed by a successful log sync; a new writer + commit yields exactly committed (+) recovered queue. An image is non-trivial when it differs from the no-crash directory.",
    "depth_completed" => depth_done,
    "tear_policy" => format!("first crash: {:?}; later crashes: Quick (tears at 1, mid, len-1)", sh.policy),
    "cap_hit" => if timed_out { Some(format!("wall budget {}s", sh.deadline_s)) } else { None },
    "image_cap_per_cut_hit" => sh.capped.load(Ordering::Relaxed),
    "exhaustive" => !timed_out && !sh.capped.load(Ordering::Relaxed),
    "distinct_observed_outcomes" => outcomes,
  };
  rep.finish(
    cov,
    vec![
      "durability model M1-M4 of DESIGN §2.4".into(),
      "operations never followed by a successful sync may or may not survive (not constrained)".into(),
    ],
  )
}

fn root_history_of(trail: &str) -> Value {
  // trail starts with "[op op op] CRASH ..."; ops are re-parsed from their short form
  let inner = trail.trim_start().strip_prefix('[').and_then(|s| s.split(']').next()).unwrap_or("");
  let ops: Vec<Op> = inner.split_whitespace().filter_map(parse_short).collect();
  serde_json::to_value(ops).unwrap()
}

fn parse_short(s: &str) -> Option<Op> {
  if s == "compact" {
    return Some(Op::Compact);
  }
  if s == "reopen" {
    return Some(Op::Reopen);
  }
  for (p, f) in [("new", 0), ("drop", 1), ("commit", 2), ("rollback", 3)] {
    if let Some(h) = s.strip_prefix(p) {
      if let Ok(h) = h.parse::<usize>() {
        return Some(match f {
          0 => Op::New(h),
          1 => Op::DropH(h),
          2 => Op::Commit(h),
          _ => Op::Rollback(h),
        });
      }
    }
  }
  if let Some(r) = s.strip_prefix("add") {
    let (h, rest) = r.split_once('(')?;
    let rest = rest.strip_suffix(')')?;
    let (id, v) = rest.split_at(1);
    return Some(Op::Add(h.parse().ok()?, id.into(), v.into()));
  }
  if let Some(r) = s.strip_prefix("del") {
    let (h, rest) = r.split_once('(')?;
    let id = rest.strip_suffix(')')?;
    return Some(Op::Del(h.parse().ok()?, id.into()));
  }
  None
}
