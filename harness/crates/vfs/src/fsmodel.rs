//! Durability model M (DESIGN §2.4) and crash-image enumeration.
//!
//! M1 file data written since the file's last fsync is volatile: at a crash a prefix of the
//!    unsynced writes persists, the next one possibly torn at a byte (file ends at the tear, or
//!    has its final length with zeros after the tear); thorough tier also drops one earlier write.
//! M2 directory operations (create/rename/unlink) are volatile until the directory is fsynced;
//!    a prefix of the directory's unsynced operation sequence persists.
//! M3 fsync of a regular file also makes its own directory entry durable.
//! M4 a durable entry whose data never was synced holds any M1-admissible content.
//!
//! The model handles one flat directory per index (default feature set writes no subdirs).

use std::collections::{BTreeMap, BTreeSet};

use crate::shim::FsOp;

#[derive(Debug, Clone, PartialEq, Eq)]
pub enum WOp {
  Write { offset: Option<u64>, data: Vec<u8> },
  Truncate(u64),
}

#[derive(Debug, Clone, Default)]
pub struct Inode {
  pub synced: Vec<u8>,
  pub pending: Vec<WOp>,
}

impl Inode {
  pub fn apply(content: &mut Vec<u8>, w: &WOp) {
    match w {
      WOp::Write { offset, data } => {
        let off = offset.map(|o| o as usize).unwrap_or(content.len());
        if content.len() < off + data.len() {
          content.resize(off + data.len(), 0);
        }
        content[off..off + data.len()].copy_from_slice(data);
      }
      WOp::Truncate(l) => content.resize(*l as usize, 0),
    }
  }
  pub fn latest(&self) -> Vec<u8> {
    let mut c = self.synced.clone();
    for w in &self.pending {
      Self::apply(&mut c, w);
    }
    c
  }
}

#[derive(Debug, Clone)]
pub enum DirOp {
  Create { name: String, ino: usize, pinned: bool },
  Rename { from: String, to: String },
  Unlink { name: String },
}

#[derive(Debug, Clone, Default)]
pub struct FsModel {
  pub root: String,
  pub inodes: Vec<Inode>,
  /// durable directory: name -> inode
  pub durable_dir: BTreeMap<String, usize>,
  pub pending_dir: Vec<DirOp>,
  /// volatile (latest) view
  pub cur_dir: BTreeMap<String, usize>,
  fds: BTreeMap<i32, FdTarget>,
}

#[derive(Debug, Clone)]
enum FdTarget {
  File(usize),
  Dir,
}

#[derive(Debug, Clone, Copy, PartialEq, Eq)]
pub enum TearPolicy {
  /// tears at {1, mid, len-1} of the torn write
  Quick,
  /// every byte for writes <= 256 bytes; first/last 64 bytes + 4096-boundaries beyond
  Full,
}

pub type Image = BTreeMap<String, Vec<u8>>;

impl FsModel {
  pub fn new(root: &str) -> FsModel {
    FsModel { root: root.trim_end_matches('/').to_string(), ..Default::default() }
  }

  fn name_of(&self, path: &str) -> Option<String> {
    let rest = path.strip_prefix(&self.root)?;
    let rest = rest.strip_prefix('/')?;
    if rest.contains('/') {
      return None; // subdirectories are outside the flat-directory model
    }
    Some(rest.to_string())
  }

  /// Replay one logged operation. Returns Err for operations the model cannot represent.
  pub fn step(&mut self, op: &FsOp) -> Result<(), String> {
    match op {
      FsOp::Open { fd, path, creat, trunc, dir, .. } => {
        if *dir || path.trim_end_matches('/') == self.root {
          self.fds.insert(*fd, FdTarget::Dir);
          return Ok(());
        }
        let Some(name) = self.name_of(path) else { return Err(format!("path outside model: {path}")) };
        let ino = match self.cur_dir.get(&name) {
          Some(i) => *i,
          None => {
            if !*creat {
              return Err(format!("open of missing file without O_CREAT: {path}"));
            }
            self.inodes.push(Inode::default());
            let i = self.inodes.len() - 1;
            self.cur_dir.insert(name.clone(), i);
            self.pending_dir.push(DirOp::Create { name, ino: i, pinned: false });
            i
          }
        };
        if *trunc {
          let node = &mut self.inodes[ino];
          if !(node.synced.is_empty() && node.pending.is_empty()) {
            node.pending.push(WOp::Truncate(0));
          }
        }
        self.fds.insert(*fd, FdTarget::File(ino));
        Ok(())
      }
      FsOp::Write { fd, offset, data } => match self.fds.get(fd) {
        Some(FdTarget::File(i)) => {
          self.inodes[*i].pending.push(WOp::Write { offset: *offset, data: data.clone() });
          Ok(())
        }
        _ => Err(format!("write on unknown fd {fd}")),
      },
      FsOp::Truncate { fd, len } => match self.fds.get(fd) {
        Some(FdTarget::File(i)) => {
          self.inodes[*i].pending.push(WOp::Truncate(*len));
          Ok(())
        }
        _ => Err(format!("ftruncate on unknown fd {fd}")),
      },
      FsOp::Fsync { fd } => match self.fds.get(fd).cloned() {
        Some(FdTarget::File(i)) => {
          let node = &mut self.inodes[i];
          node.synced = node.latest();
          node.pending.clear();
          // M3: the file's own directory entry becomes durable
          for d in self.pending_dir.iter_mut() {
            if let DirOp::Create { ino, pinned, .. } = d {
              if *ino == i {
                *pinned = true;
              }
            }
          }
          Ok(())
        }
        Some(FdTarget::Dir) => {
          let ops = std::mem::take(&mut self.pending_dir);
          for d in ops {
            Self::apply_dirop(&mut self.durable_dir, &d);
          }
          Ok(())
        }
        None => Err(format!("fsync on unknown fd {fd}")),
      },
      FsOp::Close { fd } => {
        self.fds.remove(fd);
        Ok(())
      }
      FsOp::Rename { from, to } => {
        let (Some(f), Some(t)) = (self.name_of(from), self.name_of(to)) else {
          return Err(format!("rename outside model: {from} -> {to}"));
        };
        if let Some(i) = self.cur_dir.remove(&f) {
          self.cur_dir.insert(t.clone(), i);
        }
        self.pending_dir.push(DirOp::Rename { from: f, to: t });
        Ok(())
      }
      FsOp::Unlink { path } => {
        let Some(n) = self.name_of(path) else { return Err(format!("unlink outside model: {path}")) };
        self.cur_dir.remove(&n);
        self.pending_dir.push(DirOp::Unlink { name: n });
        Ok(())
      }
      FsOp::Mkdir { path } => {
        if path.trim_end_matches('/') == self.root || self.root.starts_with(path.trim_end_matches('/')) {
          Ok(())
        } else {
          Err(format!("mkdir of subdirectory not modelled: {path}"))
        }
      }
      FsOp::Rmdir { path } => Err(format!("rmdir not modelled: {path}")),
      FsOp::Access { .. } | FsOp::Marker { .. } => Ok(()),
    }
  }

  fn apply_dirop(dir: &mut BTreeMap<String, usize>, d: &DirOp) {
    match d {
      DirOp::Create { name, ino, .. } => {
        dir.insert(name.clone(), *ino);
      }
      DirOp::Rename { from, to } => {
        if let Some(i) = dir.remove(from) {
          dir.insert(to.clone(), i);
        }
      }
      DirOp::Unlink { name } => {
        dir.remove(name);
      }
    }
  }

  /// The volatile (no-crash) view.
  pub fn latest_image(&self) -> Image {
    self.cur_dir.iter().map(|(n, i)| (n.clone(), self.inodes[*i].latest())).collect()
  }

  /// Directory variants: for each prefix length k of pending dir ops, apply ops < k plus pinned
  /// creates >= k. Deduplicated.
  fn dir_variants(&self) -> Vec<BTreeMap<String, usize>> {
    let mut out: Vec<BTreeMap<String, usize>> = Vec::new();
    for k in 0..=self.pending_dir.len() {
      let mut d = self.durable_dir.clone();
      for (idx, op) in self.pending_dir.iter().enumerate() {
        if idx < k {
          Self::apply_dirop(&mut d, op);
        } else if let DirOp::Create { pinned: true, name, ino } = op {
          // pinned entry survives unless a later *durable* op already moved it (idx >= k: none)
          if !d.values().any(|v| v == ino) {
            d.insert(name.clone(), *ino);
          }
        }
      }
      if !out.contains(&d) {
        out.push(d);
      }
    }
    out
  }

  fn tear_points(len: usize, policy: TearPolicy) -> Vec<usize> {
    if len <= 1 {
      return vec![];
    }
    let mut s = BTreeSet::new();
    match policy {
      TearPolicy::Quick => {
        s.insert(1);
        s.insert(len / 2);
        s.insert(len - 1);
      }
      TearPolicy::Full => {
        if len <= 256 {
          for t in 1..len {
            s.insert(t);
          }
        } else {
          for t in 1..=64 {
            s.insert(t);
            s.insert(len - t);
          }
          let mut b = 4096;
          while b < len {
            s.insert(b);
            b += 4096;
          }
        }
      }
    }
    s.into_iter().filter(|t| *t > 0 && *t < len).collect()
  }

  /// All M1-admissible contents of one inode.
  fn content_variants(node: &Inode, policy: TearPolicy, nonprefix: bool) -> Vec<Vec<u8>> {
    let mut out: Vec<Vec<u8>> = Vec::new();
    let mut push = |c: Vec<u8>, out: &mut Vec<Vec<u8>>| {
      if !out.contains(&c) {
        out.push(c);
      }
    };
    let mut cur = node.synced.clone();
    push(cur.clone(), &mut out);
    for (k, w) in node.pending.iter().enumerate() {
      // torn variants of w on top of prefix k
      if let WOp::Write { offset, data } = w {
        for t in Self::tear_points(data.len(), policy) {
          let mut c = cur.clone();
          Inode::apply(&mut c, &WOp::Write { offset: *offset, data: data[..t].to_vec() });
          push(c, &mut out);
          if policy == TearPolicy::Full || t == data.len() / 2 {
            // final length with zero fill after the tear
            let mut z = data.clone();
            for b in z[t..].iter_mut() {
              *b = 0;
            }
            let mut c2 = cur.clone();
            Inode::apply(&mut c2, &WOp::Write { offset: *offset, data: z });
            push(c2, &mut out);
          }
        }
      }
      Inode::apply(&mut cur, w);
      push(cur.clone(), &mut out);
      if nonprefix && k > 0 {
        // one earlier write dropped (zero-filled hole) while later ones persist
        for drop_idx in 0..k {
          let mut c = node.synced.clone();
          for (j, w2) in node.pending.iter().enumerate().take(k + 1) {
            if j == drop_idx {
              if let WOp::Write { offset, data } = w2 {
                let z = vec![0u8; data.len()];
                Inode::apply(&mut c, &WOp::Write { offset: *offset, data: z });
              }
              continue;
            }
            Inode::apply(&mut c, w2);
          }
          push(c, &mut out);
        }
      }
    }
    out
  }

  /// Enumerate the admissible durable images of the current state, *projected* on the files
  /// recovery can read: `always` (e.g. MANIFEST.json, wal.log) plus whatever `referenced` extracts
  /// from the chosen MANIFEST.json content. Files outside the projection are left out of the
  /// image (their content cannot influence recovery; the caller validates this by re-running a
  /// sample of recoveries on `full_image`). `cap` bounds the number of images returned; the bool
  /// says whether the cap truncated the enumeration.
  pub fn images(
    &self,
    policy: TearPolicy,
    nonprefix: bool,
    cap: usize,
    manifest: &str,
    always: &[&str],
    referenced: &dyn Fn(&[u8]) -> Vec<String>,
  ) -> (Vec<Image>, bool) {
    let mut out: Vec<Image> = Vec::new();
    let mut seen: BTreeSet<(u64, usize)> = BTreeSet::new();
    for dir in self.dir_variants() {
      let man_variants: Vec<Option<Vec<u8>>> = match dir.get(manifest) {
        Some(i) => Self::content_variants(&self.inodes[*i], policy, nonprefix).into_iter().map(Some).collect(),
        None => vec![None],
      };
      for man in man_variants {
        let mut names: Vec<String> = always.iter().map(|s| s.to_string()).collect();
        if let Some(m) = &man {
          for n in referenced(m) {
            if !names.contains(&n) {
              names.push(n);
            }
          }
        }
        names.retain(|n| n != manifest && dir.contains_key(n));
        let variants: Vec<Vec<Vec<u8>>> = names
          .iter()
          .map(|n| Self::content_variants(&self.inodes[dir[n]], policy, nonprefix))
          .collect();
        let mut idx = vec![0usize; names.len()];
        loop {
          let mut img: Image = names
            .iter()
            .enumerate()
            .map(|(j, n)| (n.clone(), variants[j][idx[j]].clone()))
            .collect();
          if let Some(m) = &man {
            img.insert(manifest.to_string(), m.clone());
          }
          let h = (hash_image(&img), img.len());
          if seen.insert(h) {
            if out.len() >= cap {
              return (out, true);
            }
            out.push(img);
          }
          let mut j = 0;
          loop {
            if j == idx.len() {
              break;
            }
            idx[j] += 1;
            if idx[j] < variants[j].len() {
              break;
            }
            idx[j] = 0;
            j += 1;
          }
          if j == idx.len() {
            break;
          }
        }
      }
    }
    (out, false)
  }

  /// `img` completed with every other file of the volatile view at its latest content (used to
  /// validate that files outside the projection do not influence recovery).
  pub fn full_image(&self, img: &Image) -> Image {
    let mut out = self.latest_image();
    for (n, c) in img {
      out.insert(n.clone(), c.clone());
    }
    // a projected image without MANIFEST.json / wal.log means "absent"
    out
  }
}

/// 64-bit SipHash of an image. (CRC32 must not be used here: WAL records embed their own CRC32,
/// so whole-file CRCs of different record sequences collide systematically.)
pub fn hash_image(img: &Image) -> u64 {
  use std::hash::{Hash, Hasher};
  let mut h = std::collections::hash_map::DefaultHasher::new();
  for (n, c) in img {
    n.hash(&mut h);
    c.hash(&mut h);
  }
  h.finish()
}

/// Strong (collision-resistant enough for memoisation) key of the recovery-relevant projection.
pub fn key_bytes(parts: &[(&str, Option<&[u8]>)]) -> Vec<u8> {
  let mut out = Vec::new();
  for (n, c) in parts {
    out.extend_from_slice(n.as_bytes());
    out.push(0);
    match c {
      Some(c) => {
        out.push(1);
        out.extend_from_slice(&(c.len() as u64).to_le_bytes());
        out.extend_from_slice(c);
      }
      None => out.push(0),
    }
  }
  out
}

/// Wipe `root` and write `img` into it with plain syscalls (callers keep sessions inactive for
/// this root or accept that the writes are logged).
pub fn materialise(root: &std::path::Path, img: &Image) -> std::io::Result<()> {
  if root.exists() {
    for e in std::fs::read_dir(root)? {
      let e = e?;
      let p = e.path();
      if p.is_dir() {
        std::fs::remove_dir_all(&p)?;
      } else {
        std::fs::remove_file(&p)?;
      }
    }
  } else {
    std::fs::create_dir_all(root)?;
  }
  for (n, c) in img {
    std::fs::write(root.join(n), c)?;
  }
  Ok(())
}

impl FsModel {
  /// A model whose durable state is exactly `img` (the state right after a crash + restart).
  pub fn from_image(root: &str, img: &Image) -> FsModel {
    let mut m = FsModel::new(root);
    for (n, c) in img {
      m.inodes.push(Inode { synced: c.clone(), pending: Vec::new() });
      let i = m.inodes.len() - 1;
      m.durable_dir.insert(n.clone(), i);
      m.cur_dir.insert(n.clone(), i);
    }
    m
  }
}
