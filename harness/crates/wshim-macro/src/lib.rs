//! Pass-through stand-in for the `#[wasm_bindgen]` attribute.
use proc_macro::TokenStream;

#[proc_macro_attribute]
pub fn wasm_bindgen(_attr: TokenStream, item: TokenStream) -> TokenStream {
  item
}
