//! Shared pieces for the input-space engines (inputmc): small worlds, exhaustive enumerators,
//! parallel product runs.

use std::collections::BTreeMap;

use rayon::prelude::*;
use searchlite_core::api::types::SearchRequest;
use searchlite_core::api::{Index, IndexReader, SearchResult};
use searchlite_core::Schema;
use serde_json::{json, Value};

use crate::world::*;

/// A world: schema + documents (JSON objects with `_id`) + how they are committed + deletions.
#[derive(Debug, Clone)]
pub struct World {
  pub schema_name: String,
  pub schema_json: Value,
  pub docs: Vec<Value>,
  /// composition of docs.len(): docs are committed in consecutive chunks of these sizes
  pub layout: Vec<usize>,
  /// ids deleted (in one extra commit) after everything was added
  pub deleted: Vec<String>,
  /// compact at the end
  pub compact: bool,
}

impl World {
  pub fn new(schema_name: &str, schema_json: Value, docs: Vec<Value>) -> World {
    let n = docs.len();
    World { schema_name: schema_name.into(), schema_json, docs, layout: if n == 0 { vec![] } else { vec![n] }, deleted: vec![], compact: false }
  }
  pub fn with_layout(mut self, layout: Vec<usize>) -> World {
    self.layout = layout;
    self
  }
  pub fn with_deleted(mut self, ids: &[&str]) -> World {
    self.deleted = ids.iter().map(|s| s.to_string()).collect();
    self
  }
  pub fn schema(&self) -> Schema {
    schema(self.schema_json.clone())
  }
  /// Build an in-memory index for this world.
  pub fn build(&self) -> Index {
    let sch = self.schema();
    let idx = mem_index(&sch);
    build_layout(&idx, &self.docs, &self.layout);
    if !self.deleted.is_empty() {
      let ids: Vec<&str> = self.deleted.iter().map(|s| s.as_str()).collect();
      delete_commit(&idx, &ids);
    }
    if self.compact {
      idx.compact().expect("compact");
    }
    idx
  }
  pub fn live_docs(&self) -> Vec<&Value> {
    self.docs.iter().filter(|d| !self.deleted.iter().any(|x| Some(x.as_str()) == d["_id"].as_str())).collect()
  }
  pub fn describe(&self) -> Value {
    json!({"schema": self.schema_name, "docs": self.docs, "layout": self.layout, "deleted": self.deleted, "compact": self.compact})
  }
  pub fn to_json(&self) -> Value {
    json!({"schema_name": self.schema_name, "schema_json": self.schema_json, "docs": self.docs, "layout": self.layout, "deleted": self.deleted, "compact": self.compact})
  }
  pub fn from_json(v: &Value) -> World {
    World {
      schema_name: v["schema_name"].as_str().unwrap_or("").to_string(),
      schema_json: v["schema_json"].clone(),
      docs: v["docs"].as_array().cloned().unwrap_or_default(),
      layout: v["layout"].as_array().map(|a| a.iter().map(|x| x.as_u64().unwrap() as usize).collect()).unwrap_or_default(),
      deleted: v["deleted"].as_array().map(|a| a.iter().map(|x| x.as_str().unwrap().to_string()).collect()).unwrap_or_default(),
      compact: v["compact"].as_bool().unwrap_or(false),
    }
  }
}

/// All sequences over `alphabet` of length min..=max, shortest first.
pub fn sequences<T: Clone>(alphabet: &[T], min: usize, max: usize) -> Vec<Vec<T>> {
  let mut out: Vec<Vec<T>> = Vec::new();
  let mut layer: Vec<Vec<T>> = vec![vec![]];
  for len in 0..=max {
    if len >= min {
      out.extend(layer.iter().cloned());
    }
    if len == max {
      break;
    }
    let mut next = Vec::with_capacity(layer.len() * alphabet.len());
    for s in &layer {
      for a in alphabet {
        let mut x = s.clone();
        x.push(a.clone());
        next.push(x);
      }
    }
    layer = next;
  }
  out
}

/// All multisets (combinations with repetition, as index vectors, non-decreasing) of size k over n items.
pub fn multisets(n: usize, k: usize) -> Vec<Vec<usize>> {
  fn rec(n: usize, k: usize, start: usize, cur: &mut Vec<usize>, out: &mut Vec<Vec<usize>>) {
    if cur.len() == k {
      out.push(cur.clone());
      return;
    }
    for i in start..n {
      cur.push(i);
      rec(n, k, i, cur, out);
      cur.pop();
    }
  }
  let mut out = Vec::new();
  rec(n, k, 0, &mut Vec::new(), &mut out);
  out
}

/// All subsets of 0..n with size <= max_size.
pub fn subsets(n: usize, max_size: usize) -> Vec<Vec<usize>> {
  let mut out = Vec::new();
  for mask in 0u32..(1u32 << n) {
    if (mask.count_ones() as usize) <= max_size {
      out.push((0..n).filter(|i| mask & (1 << i) != 0).collect());
    }
  }
  out.sort_by_key(|s: &Vec<usize>| s.len());
  out
}

/// Ids "A","B","C",...
pub fn id_of(i: usize) -> String {
  ((b'A' + (i as u8)) as char).to_string()
}

/// Run `f` over all items in parallel, preserving order of results.
pub fn par_map<T: Sync, R: Send>(items: &[T], f: impl Fn(&T) -> R + Sync + Send) -> Vec<R> {
  items.par_iter().map(|x| f(x)).collect()
}

/// Search returning Err(message) on error or panic.
pub fn search_caught(reader: &IndexReader, r: &SearchRequest) -> Result<SearchResult, String> {
  match crate::catch(|| reader.search(r)) {
    Ok(Ok(res)) => Ok(res),
    Ok(Err(e)) => Err(format!("error: {e:#}")),
    Err(p) => Err(format!("PANIC: {p}")),
  }
}

/// Hits as (id, score) pairs.
pub fn id_scores(res: &SearchResult) -> Vec<(String, f32)> {
  res.hits.iter().map(|h| (h.doc_id.clone(), h.score)).collect()
}

pub fn approx(a: f32, b: f32, rel: f32) -> bool {
  if a == b {
    return true;
  }
  let d = (a - b).abs();
  d <= rel * a.abs().max(b.abs()).max(1e-6)
}

/// Standard small schemas (DESIGN §2.2). All fields stored so that compaction is allowed.
pub fn schema_text_default() -> Value {
  json!({"doc_id_field": "_id", "text_fields": [{"name": "body", "analyzer": "default", "stored": true, "indexed": true}],
    "keyword_fields": [], "numeric_fields": []})
}

pub fn schema_text_kw_num() -> Value {
  json!({"doc_id_field": "_id",
    "text_fields": [{"name": "body", "analyzer": "default", "stored": true, "indexed": true},
                    {"name": "title", "analyzer": "default", "stored": true, "indexed": true}],
    "keyword_fields": [{"name": "kw", "stored": true, "indexed": true, "fast": true},
                       {"name": "g", "stored": true, "indexed": true, "fast": true}],
    "numeric_fields": [{"name": "n", "i64": true, "fast": true, "stored": true},
                       {"name": "f", "i64": false, "fast": true, "stored": true}]})
}

pub fn group_by<K: Ord + Clone, V>(items: Vec<(K, V)>) -> BTreeMap<K, Vec<V>> {
  let mut m: BTreeMap<K, Vec<V>> = BTreeMap::new();
  for (k, v) in items {
    m.entry(k).or_default().push(v);
  }
  m
}
