pub mod ev;
pub mod faulty;
pub mod hist;
pub mod inp;
pub mod sched;
pub mod world;

pub use ev::{Reporter, Tier};

/// Run `f` under catch_unwind with the default panic hook silenced for the calling thread's
/// duration; returns Err(panic message) on panic.
thread_local! {
  static QUIET: std::cell::Cell<u32> = const { std::cell::Cell::new(0) };
}

pub fn catch<T>(f: impl FnOnce() -> T) -> Result<T, String> {
  QUIET.with(|q| q.set(q.get() + 1));
  let r = std::panic::catch_unwind(std::panic::AssertUnwindSafe(f));
  QUIET.with(|q| q.set(q.get() - 1));
  match r {
    Ok(v) => Ok(v),
    Err(e) => {
      let msg = if let Some(s) = e.downcast_ref::<&str>() {
        s.to_string()
      } else if let Some(s) = e.downcast_ref::<String>() {
        s.clone()
      } else {
        "<non-string panic>".to_string()
      };
      Err(msg)
    }
  }
}

/// Silence panic messages raised inside `catch` (they are caught and reported as data); panics of
/// the harness itself are still printed.
pub fn quiet_panics() {
  let default = std::panic::take_hook();
  std::panic::set_hook(Box::new(move |info| {
    if QUIET.with(|q| q.get()) == 0 {
      default(info);
    }
  }));
}

pub fn threads() -> usize {
  std::env::var("VERIF_THREADS")
    .ok()
    .and_then(|s| s.parse().ok())
    .unwrap_or_else(|| std::thread::available_parallelism().map(|n| n.get()).unwrap_or(8))
}

pub fn init_pool() {
  let _ = rayon::ThreadPoolBuilder::new()
    .num_threads(threads())
    .stack_size(16 << 20)
    .build_global();
}
