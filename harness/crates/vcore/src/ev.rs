//! Evidence files, violation reporting and known-finding classification.
//!
//! Exit codes: 0 = held on everything explored (known findings are printed and tolerated),
//! 1 = at least one violation not covered by /verif/known_findings.json, 2 = machinery failure.

use serde::{Deserialize, Serialize};
use serde_json::{json, Map, Value};
use std::collections::BTreeMap;
use std::path::PathBuf;
use std::sync::atomic::{AtomicU64, Ordering};
use std::time::Instant;

use parking_lot::Mutex;

pub fn verif_dir() -> PathBuf {
  if let Ok(d) = std::env::var("VERIF_DIR") {
    return PathBuf::from(d);
  }
  PathBuf::from("/verif")
}

#[derive(Debug, Clone, Copy, PartialEq, Eq)]
pub enum Tier {
  Quick,
  Thorough,
}

impl Tier {
  pub fn parse(s: &str) -> Tier {
    match s {
      "thorough" => Tier::Thorough,
      _ => Tier::Quick,
    }
  }
  pub fn name(&self) -> &'static str {
    match self {
      Tier::Quick => "quick",
      Tier::Thorough => "thorough",
    }
  }
  pub fn is_quick(&self) -> bool {
    matches!(self, Tier::Quick)
  }
}

#[derive(Debug, Clone, Serialize, Deserialize)]
pub struct KnownFinding {
  pub property: String,
  pub signature: String,
  pub what_fails: String,
  /// "open" or "fixed: <commit>"
  pub status: String,
}

fn load_known() -> Vec<KnownFinding> {
  let p = verif_dir().join("known_findings.json");
  match std::fs::read(&p) {
    Ok(b) => {
      let v: Value = serde_json::from_slice(&b).expect("known_findings.json must parse");
      let arr = v.get("findings").cloned().unwrap_or(Value::Array(vec![]));
      serde_json::from_value(arr).expect("known_findings.json entries malformed")
    }
    Err(_) => Vec::new(),
  }
}

struct KfState {
  count: u64,
  witness: Value,
}

pub struct Reporter {
  pub prop: String,
  pub tier: Tier,
  pub seed: u64,
  pub level: &'static str,
  start: Instant,
  known: Vec<KnownFinding>,
  kf_hits: Mutex<BTreeMap<String, KfState>>,
  violations: Mutex<Vec<(String, PathBuf)>>,
  viol_count: AtomicU64,
  pub evaluations: AtomicU64,
  samples: Mutex<Vec<Value>>,
  max_reported: u64,
  replaying: bool,
  /// Some(key): this run is an additional level of a check whose first level already wrote the
  /// evidence file; `finish` folds this run's coverage into it under `coverage[key]`.
  merge_key: Option<String>,
}

impl Reporter {
  pub fn new(prop: &str, tier: Tier, level: &'static str) -> Reporter {
    let seed = std::env::var("VERIF_SEED")
      .ok()
      .and_then(|s| s.parse::<u64>().ok())
      .unwrap_or(0);
    Reporter {
      prop: prop.to_string(),
      tier,
      seed,
      level,
      start: Instant::now(),
      known: load_known()
        .into_iter()
        .filter(|k| k.property == prop)
        .collect(),
      kf_hits: Mutex::new(BTreeMap::new()),
      violations: Mutex::new(Vec::new()),
      viol_count: AtomicU64::new(0),
      evaluations: AtomicU64::new(0),
      samples: Mutex::new(Vec::new()),
      max_reported: 5,
      replaying: false,
      merge_key: None,
    }
  }

  pub fn set_merge(&mut self, key: &str) {
    self.merge_key = Some(key.to_string());
  }

  pub fn set_replaying(&mut self, r: bool) {
    self.replaying = r;
  }

  pub fn elapsed_s(&self) -> f64 {
    self.start.elapsed().as_secs_f64()
  }

  pub fn eval(&self) -> u64 {
    self.evaluations.fetch_add(1, Ordering::Relaxed)
  }

  pub fn add_evals(&self, n: u64) {
    self.evaluations.fetch_add(n, Ordering::Relaxed);
  }

  /// Keep a few written-out cases for the evidence file.
  pub fn sample(&self, v: Value) {
    let mut s = self.samples.lock();
    if s.len() < 4 {
      s.push(v);
    }
  }

  pub fn sample_full(&self) -> bool {
    self.samples.lock().len() >= 4
  }

  /// True if `signature` names an open known finding for this property.
  pub fn is_known_open(&self, signature: &str) -> bool {
    self
      .known
      .iter()
      .any(|k| k.signature == signature && k.status == "open")
  }

  /// Report a failing case. `signature` is the classifier's verdict about which known defect (if
  /// any) explains this failure; `None` or an unlisted / fixed signature is a violation.
  /// `case` must contain everything `--replay` needs.
  pub fn fail(&self, signature: Option<&str>, what: &str, case: Value) {
    if let Some(sig) = signature {
      if self.is_known_open(sig) {
        let mut hits = self.kf_hits.lock();
        let e = hits.entry(sig.to_string()).or_insert_with(|| KfState {
          count: 0,
          witness: json!({"what": what, "case": case}),
        });
        e.count += 1;
        return;
      }
    }
    let n = self.viol_count.fetch_add(1, Ordering::SeqCst);
    if n >= self.max_reported {
      if std::env::var("VERIF_ALL_VIOLATIONS").is_ok() {
        println!("  more: [{}] {}", signature.unwrap_or("-"), what);
      }
      return;
    }
    let body = json!({
      "property": self.prop,
      "tier": self.tier.name(),
      "signature": signature,
      "what": what,
      "case": case,
      "replay_cmd": format!("./check {} --replay <this file>", self.prop),
    });
    let text = serde_json::to_string_pretty(&body).unwrap();
    let h = crc32fast::hash(text.as_bytes());
    let dir = verif_dir().join("replays").join(&self.prop);
    let _ = std::fs::create_dir_all(&dir);
    let path = dir.join(format!("{:08x}.json", h));
    if !self.replaying {
      let _ = std::fs::write(&path, text);
    }
    println!("VIOLATION property={} replay={}", self.prop, path.display());
    println!("  what: {}", what);
    self.violations.lock().push((what.to_string(), path));
  }

  pub fn violations(&self) -> u64 {
    self.viol_count.load(Ordering::SeqCst)
  }

  pub fn known_cases(&self) -> u64 {
    self.kf_hits.lock().values().map(|k| k.count).sum()
  }

  /// Write the evidence file and return the process exit code.
  /// `coverage` holds the level-specific keys (states, transitions, distinct_nontrivial, rule, ...).
  pub fn finish(&self, mut coverage: Map<String, Value>, assumptions: Vec<String>) -> i32 {
    let hits = self.kf_hits.lock();
    let mut kf = Map::new();
    for (sig, st) in hits.iter() {
      let what = self
        .known
        .iter()
        .find(|k| &k.signature == sig)
        .map(|k| k.what_fails.clone())
        .unwrap_or_default();
      println!(
        "KNOWN-FINDING: property={} signature={} cases={} {}",
        self.prop, sig, st.count, what
      );
      kf.insert(
        sig.clone(),
        json!({"cases": st.count, "first_witness": st.witness}),
      );
    }
    // open findings that did not reproduce are worth a note (not an error: tiers differ in reach)
    for k in self.known.iter().filter(|k| k.status == "open") {
      if !hits.contains_key(&k.signature) {
        println!(
          "note: open known finding {} not reached in this run (property={})",
          k.signature, self.prop
        );
      }
    }
    let evals = self.evaluations.load(Ordering::Relaxed);
    coverage
      .entry("evaluations".to_string())
      .or_insert(json!(evals));
    let samples = self.samples.lock().clone();
    if !coverage.contains_key("samples") {
      coverage.insert("samples".to_string(), Value::Array(samples));
    }
    coverage.insert("known_finding_cases".to_string(), Value::Object(kf));
    let viol = self.violations();
    let mut ev = json!({
      "property_id": self.prop,
      "tier": self.tier.name(),
      "seed": self.seed,
      "level": self.level,
      "coverage": Value::Object(coverage),
      "assumptions": assumptions,
      "wall_s": self.elapsed_s(),
      "violations": viol,
    });
    if let (Some(key), false) = (self.merge_key.as_ref(), self.replaying) {
      let path = verif_dir().join("evidence").join(format!("{}.json", self.prop));
      let first: Value = std::fs::read(&path)
        .ok()
        .and_then(|b| serde_json::from_slice(&b).ok())
        .unwrap_or_else(|| machinery_failure(&format!("{}: evidence of the first level missing at {}", self.prop, path.display())));
      if first["tier"] != ev["tier"] || first["coverage"].get(key).is_some() {
        machinery_failure(&format!("{}: evidence file does not hold the first level of this {} run", self.prop, self.tier.name()));
      }
      let mut merged = first;
      merged["coverage"][key.as_str()] = ev["coverage"].take();
      let evals = merged["coverage"]["evaluations"].as_u64().unwrap_or(0) + merged["coverage"][key.as_str()]["evaluations"].as_u64().unwrap_or(0);
      merged["coverage"]["evaluations"] = json!(evals);
      let mut a: Vec<Value> = merged["assumptions"].as_array().cloned().unwrap_or_default();
      a.extend(ev["assumptions"].as_array().cloned().unwrap_or_default());
      merged["assumptions"] = Value::Array(a);
      merged["wall_s"] = json!(merged["wall_s"].as_f64().unwrap_or(0.0) + self.elapsed_s());
      merged["violations"] = json!(merged["violations"].as_u64().unwrap_or(0) + viol);
      ev = merged;
    }
    if !self.replaying {
      let dir = verif_dir().join("evidence");
      let _ = std::fs::create_dir_all(&dir);
      let path = dir.join(format!("{}.json", self.prop));
      let tmp = dir.join(format!(".{}.json.tmp", self.prop));
      std::fs::write(&tmp, serde_json::to_string_pretty(&ev).unwrap()).expect("write evidence");
      std::fs::rename(&tmp, &path).expect("rename evidence");
    }
    println!(
      "{} {} done: evaluations={} violations={} known_finding_cases={} wall={:.1}s",
      self.prop,
      self.tier.name(),
      evals,
      viol,
      hits.values().map(|k| k.count).sum::<u64>(),
      self.elapsed_s()
    );
    if viol > 0 {
      1
    } else {
      0
    }
  }
}

/// Machinery failure: never a verdict.
pub fn machinery_failure(msg: &str) -> ! {
  eprintln!("MACHINERY-FAILURE: {msg}");
  std::process::exit(2);
}

pub fn cov() -> Map<String, Value> {
  Map::new()
}

#[macro_export]
macro_rules! cov {
  ($($k:expr => $v:expr),* $(,)?) => {{
    let mut m = serde_json::Map::new();
    $( m.insert($k.to_string(), serde_json::json!($v)); )*
    m
  }};
}
