//! FaultyStorage: a `Storage` wrapper in which every trait call and every file operation is a
//! numbered fault site that can fail before or after performing its effect.

use std::io::{Read, Seek, SeekFrom, Write};
use std::path::Path;
use std::sync::atomic::{AtomicBool, AtomicUsize, Ordering};
use std::sync::Arc;

use anyhow::{anyhow, Result};
use parking_lot::Mutex;
use searchlite_core::storage::{DynFile, Storage, StorageFile};

#[derive(Debug, Clone, Copy, PartialEq, Eq, Hash, serde::Serialize, serde::Deserialize)]
pub enum Mode {
  Before,
  After,
}

#[derive(Default)]
pub struct Ctl {
  pub enabled: AtomicBool,
  pub counter: AtomicUsize,
  pub plan: Mutex<Vec<(usize, Mode)>>,
  pub fired: Mutex<Vec<(usize, String)>>,
  pub trace: Mutex<Vec<String>>,
  pub keep_trace: AtomicBool,
}

enum Act {
  Pass,
  Before,
  After,
}

impl Ctl {
  pub fn new() -> Arc<Ctl> {
    Arc::new(Ctl::default())
  }
  pub fn arm(&self, plan: Vec<(usize, Mode)>) {
    *self.plan.lock() = plan;
    self.fired.lock().clear();
    self.trace.lock().clear();
    self.counter.store(0, Ordering::SeqCst);
    self.enabled.store(true, Ordering::SeqCst);
  }
  /// Disarm; returns the number of sites passed while armed.
  pub fn disarm(&self) -> usize {
    self.enabled.store(false, Ordering::SeqCst);
    self.counter.load(Ordering::SeqCst)
  }
  fn site(&self, name: &str) -> Act {
    if !self.enabled.load(Ordering::Relaxed) {
      return Act::Pass;
    }
    let idx = self.counter.fetch_add(1, Ordering::SeqCst);
    if self.keep_trace.load(Ordering::Relaxed) {
      self.trace.lock().push(name.to_string());
    }
    let plan = self.plan.lock();
    for (n, m) in plan.iter() {
      if *n == idx {
        self.fired.lock().push((idx, name.to_string()));
        return match m {
          Mode::Before => Act::Before,
          Mode::After => Act::After,
        };
      }
    }
    Act::Pass
  }
}

pub struct FaultyStorage {
  pub inner: Arc<dyn Storage>,
  pub ctl: Arc<Ctl>,
}

fn injected(name: &str) -> anyhow::Error {
  anyhow!("injected storage fault at {name}")
}

fn io_injected(name: &str) -> std::io::Error {
  std::io::Error::new(std::io::ErrorKind::Other, format!("injected storage fault at {name}"))
}

fn base(p: &Path) -> String {
  let n = p.file_name().and_then(|s| s.to_str()).unwrap_or("?");
  // strip the uuid of segment files so that site names are stable across runs
  if let Some(rest) = n.strip_prefix("seg_") {
    if let Some(ext) = rest.rsplit('.').next() {
      return format!("seg.{ext}");
    }
  }
  n.to_string()
}

macro_rules! storage_site {
  ($self:ident, $name:expr, $call:expr) => {{
    match $self.ctl.site(&$name) {
      Act::Pass => $call,
      Act::Before => Err(injected(&$name)),
      Act::After => {
        let _ = $call;
        Err(injected(&$name))
      }
    }
  }};
}

impl Storage for FaultyStorage {
  fn root(&self) -> &Path {
    self.inner.root()
  }
  fn ensure_dir(&self, path: &Path) -> Result<()> {
    storage_site!(self, format!("ensure_dir({})", base(path)), self.inner.ensure_dir(path))
  }
  fn exists(&self, path: &Path) -> bool {
    self.inner.exists(path)
  }
  fn open_read(&self, path: &Path) -> Result<DynFile> {
    let name = format!("open_read({})", base(path));
    match self.ctl.site(&name) {
      Act::Pass => Ok(Box::new(FaultyFile { inner: self.inner.open_read(path)?, ctl: self.ctl.clone(), name: base(path) })),
      _ => Err(injected(&name)),
    }
  }
  fn open_write(&self, path: &Path) -> Result<DynFile> {
    let name = format!("open_write({})", base(path));
    match self.ctl.site(&name) {
      Act::Pass => Ok(Box::new(FaultyFile { inner: self.inner.open_write(path)?, ctl: self.ctl.clone(), name: base(path) })),
      Act::Before => Err(injected(&name)),
      Act::After => {
        let _ = self.inner.open_write(path);
        Err(injected(&name))
      }
    }
  }
  fn open_append(&self, path: &Path) -> Result<DynFile> {
    let name = format!("open_append({})", base(path));
    match self.ctl.site(&name) {
      Act::Pass => Ok(Box::new(FaultyFile { inner: self.inner.open_append(path)?, ctl: self.ctl.clone(), name: base(path) })),
      Act::Before => Err(injected(&name)),
      Act::After => {
        let _ = self.inner.open_append(path);
        Err(injected(&name))
      }
    }
  }
  fn read_to_end(&self, path: &Path) -> Result<Vec<u8>> {
    storage_site!(self, format!("read_to_end({})", base(path)), self.inner.read_to_end(path))
  }
  fn write_all(&self, path: &Path, data: &[u8]) -> Result<()> {
    storage_site!(self, format!("write_all({})", base(path)), self.inner.write_all(path, data))
  }
  fn atomic_write(&self, path: &Path, data: &[u8]) -> Result<()> {
    storage_site!(self, format!("atomic_write({})", base(path)), self.inner.atomic_write(path, data))
  }
  fn remove(&self, path: &Path) -> Result<()> {
    storage_site!(self, format!("remove({})", base(path)), self.inner.remove(path))
  }
  fn remove_dir_all(&self, path: &Path) -> Result<()> {
    storage_site!(self, format!("remove_dir_all({})", base(path)), self.inner.remove_dir_all(path))
  }
}

pub struct FaultyFile {
  inner: DynFile,
  ctl: Arc<Ctl>,
  name: String,
}

impl Read for FaultyFile {
  fn read(&mut self, buf: &mut [u8]) -> std::io::Result<usize> {
    let n = format!("{}.read", self.name);
    match self.ctl.site(&n) {
      Act::Pass => self.inner.read(buf),
      _ => Err(io_injected(&n)),
    }
  }
}

impl Write for FaultyFile {
  fn write(&mut self, buf: &[u8]) -> std::io::Result<usize> {
    let n = format!("{}.write", self.name);
    match self.ctl.site(&n) {
      Act::Pass => self.inner.write(buf),
      Act::Before => Err(io_injected(&n)),
      Act::After => {
        let _ = self.inner.write(buf);
        Err(io_injected(&n))
      }
    }
  }
  fn flush(&mut self) -> std::io::Result<()> {
    let n = format!("{}.flush", self.name);
    match self.ctl.site(&n) {
      Act::Pass => self.inner.flush(),
      Act::Before => Err(io_injected(&n)),
      Act::After => {
        let _ = self.inner.flush();
        Err(io_injected(&n))
      }
    }
  }
}

impl Seek for FaultyFile {
  fn seek(&mut self, pos: SeekFrom) -> std::io::Result<u64> {
    let n = format!("{}.seek", self.name);
    match self.ctl.site(&n) {
      Act::Pass => self.inner.seek(pos),
      Act::Before => Err(io_injected(&n)),
      Act::After => {
        let _ = self.inner.seek(pos);
        Err(io_injected(&n))
      }
    }
  }
}

impl StorageFile for FaultyFile {
  fn set_len(&mut self, len: u64) -> Result<()> {
    let n = format!("{}.set_len", self.name);
    match self.ctl.site(&n) {
      Act::Pass => self.inner.set_len(len),
      Act::Before => Err(injected(&n)),
      Act::After => {
        let _ = self.inner.set_len(len);
        Err(injected(&n))
      }
    }
  }
  fn sync_all(&mut self) -> Result<()> {
    let n = format!("{}.sync_all", self.name);
    match self.ctl.site(&n) {
      Act::Pass => self.inner.sync_all(),
      Act::Before => Err(injected(&n)),
      Act::After => {
        let _ = self.inner.sync_all();
        Err(injected(&n))
      }
    }
  }
}
