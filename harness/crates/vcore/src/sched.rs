//! Controlled scheduler for threads of the real code (DESIGN §2.5).
//!
//! Registered threads run one at a time (baton passing). A thread gives the baton back at every
//! `point`, at every `await_lock` probe and when it finishes; whoever gives it back makes the next
//! scheduling decision according to the explorer's choice prefix (then the default: stay on the
//! current thread if it is enabled, else the lowest enabled id). A thread parked in `await_lock`
//! is enabled iff its probe closure returns true; probes of parked threads are evaluated by the
//! deciding thread (all other registered threads are parked at that moment).

use std::cell::Cell;
use std::sync::Arc;
use std::time::{Duration, Instant};

use parking_lot::{Condvar, Mutex};
use searchlite_core::verif_hooks::Handler;

thread_local! {
  static TID: Cell<Option<usize>> = const { Cell::new(None) };
}

#[derive(Clone, Copy)]
struct Probe(*const (dyn Fn() -> bool + 'static));
unsafe impl Send for Probe {}

#[derive(Clone, PartialEq, Debug)]
enum St {
  NotStarted,
  Running,
  AtPoint(&'static str),
  Blocked(&'static str),
  Finished,
}

#[derive(Debug, Clone, serde::Serialize, serde::Deserialize)]
pub struct ChoicePoint {
  /// enabled threads in canonical order (current first if enabled, then ascending ids)
  pub enabled: Vec<usize>,
  pub current_enabled: bool,
  pub chosen: usize, // index into `enabled`
  pub at: String,
}

struct State {
  st: Vec<St>,
  probes: Vec<Option<Probe>>,
  current: Option<usize>,
  prefix: Vec<usize>,
  trace: Vec<ChoicePoint>,
  /// order in which threads passed a lock probe: (thread, lock name)
  pub lock_order: Vec<(usize, &'static str)>,
  points_seen: Vec<(usize, &'static str)>,
  deadlock: bool,
  diverged: Option<String>,
  started: bool,
}

pub struct Sched {
  s: Mutex<State>,
  cv: Condvar,
  n: usize,
}

pub struct RunResult {
  pub trace: Vec<ChoicePoint>,
  pub lock_order: Vec<(usize, &'static str)>,
  pub points: Vec<(usize, &'static str)>,
  pub deadlock: bool,
  pub diverged: Option<String>,
  pub lost_control: bool,
}

impl Sched {
  pub fn new(nthreads: usize, prefix: Vec<usize>) -> Arc<Sched> {
    Arc::new(Sched {
      s: Mutex::new(State {
        st: vec![St::NotStarted; nthreads],
        probes: vec![None; nthreads],
        current: None,
        prefix,
        trace: Vec::new(),
        lock_order: Vec::new(),
        points_seen: Vec::new(),
        deadlock: false,
        diverged: None,
        started: false,
      }),
      cv: Condvar::new(),
      n: nthreads,
    })
  }

  /// Called by a harness thread before it touches the code under test.
  pub fn register(&self, id: usize) {
    TID.with(|t| t.set(Some(id)));
  }

  /// Called by a harness thread when its program is over (also on panic, via guard).
  pub fn finish(&self, id: usize) {
    let mut g = self.s.lock();
    g.st[id] = St::Finished;
    g.probes[id] = None;
    if g.current == Some(id) || !g.started {
      if g.started {
        self.decide(&mut g, id, "exit");
      }
    }
    TID.with(|t| t.set(None));
    self.cv.notify_all();
  }

  fn enabled(g: &State, id: usize) -> bool {
    match &g.st[id] {
      St::AtPoint(_) => true,
      St::Blocked(_) => match g.probes[id] {
        Some(p) => unsafe { (*p.0)() },
        None => false,
      },
      _ => false,
    }
  }

  /// Make a scheduling decision (caller holds the baton or is the controller at start).
  fn decide(&self, g: &mut State, me: usize, at: &str) {
    let mut en: Vec<usize> = Vec::new();
    let cur_enabled = me < self.n && Self::enabled(g, me);
    if cur_enabled {
      en.push(me);
    }
    for i in 0..self.n {
      if i != me && Self::enabled(g, i) {
        en.push(i);
      }
    }
    if en.is_empty() {
      if g.st.iter().any(|s| !matches!(s, St::Finished)) {
        g.deadlock = true;
      }
      g.current = None;
      return;
    }
    let k = g.trace.len();
    let choice = if k < g.prefix.len() {
      let c = g.prefix[k];
      if c >= en.len() {
        g.diverged = Some(format!("choice {k}: prefix wants alternative {c} but only {} threads enabled at {at}", en.len()));
        0
      } else {
        c
      }
    } else {
      0
    };
    g.trace.push(ChoicePoint { enabled: en.clone(), current_enabled: cur_enabled, chosen: choice, at: format!("t{me}:{at}") });
    g.current = Some(en[choice]);
  }

  fn yield_at(&self, id: usize, status: St, at: &'static str) {
    let mut g = self.s.lock();
    g.st[id] = status;
    if g.started && g.current == Some(id) {
      self.decide(&mut g, id, at);
      self.cv.notify_all();
    }
    // park until chosen
    let deadline = Instant::now() + Duration::from_secs(20);
    while g.current != Some(id) {
      if g.deadlock {
        // leave the thread parked forever; the controller reports the deadlock
        self.cv.wait_for(&mut g, Duration::from_secs(3600));
        continue;
      }
      if self.cv.wait_until(&mut g, deadline).timed_out() && g.current != Some(id) && !g.deadlock {
        // keep waiting; the controller's watchdog decides about lost control
      }
    }
    g.st[id] = St::Running;
  }

  /// Controller: wait until every thread reached its first hook (or finished), make the first
  /// decision, then wait until all threads are finished. Returns the recorded execution.
  pub fn drive(&self, watchdog: Duration) -> RunResult {
    let start = Instant::now();
    let mut lost = false;
    {
      let mut g = self.s.lock();
      loop {
        if g.st.iter().all(|s| !matches!(s, St::NotStarted | St::Running)) {
          break;
        }
        if start.elapsed() > watchdog {
          lost = true;
          break;
        }
        self.cv.wait_for(&mut g, Duration::from_millis(50));
      }
      if !lost {
        g.started = true;
        let n = self.n;
        self.decide(&mut g, n, "start");
        self.cv.notify_all();
      }
    }
    if !lost {
      let mut g = self.s.lock();
      let mut last_progress = Instant::now();
      let mut last_len = 0;
      loop {
        if g.st.iter().all(|s| matches!(s, St::Finished)) || g.deadlock {
          break;
        }
        if g.trace.len() != last_len {
          last_len = g.trace.len();
          last_progress = Instant::now();
        }
        if last_progress.elapsed() > watchdog {
          lost = true;
          break;
        }
        self.cv.wait_for(&mut g, Duration::from_millis(20));
      }
    }
    let g = self.s.lock();
    RunResult {
      trace: g.trace.clone(),
      lock_order: g.lock_order.clone(),
      points: g.points_seen.clone(),
      deadlock: g.deadlock,
      diverged: g.diverged.clone(),
      lost_control: lost,
    }
  }
}

pub struct SchedHandler(pub Arc<Sched>);

impl Handler for SchedHandler {
  fn point(&self, name: &'static str) {
    let Some(id) = TID.with(|t| t.get()) else { return };
    {
      let mut g = self.0.s.lock();
      g.points_seen.push((id, name));
    }
    self.0.yield_at(id, St::AtPoint(name), name);
  }

  fn await_lock(&self, name: &'static str, free: &dyn Fn() -> bool) {
    let Some(id) = TID.with(|t| t.get()) else { return };
    // publish the probe so that deciding threads can evaluate it while we are parked
    let p: *const (dyn Fn() -> bool + '_) = free;
    let p: *const (dyn Fn() -> bool + 'static) = unsafe { std::mem::transmute(p) };
    {
      let mut g = self.0.s.lock();
      g.probes[id] = Some(Probe(p));
    }
    loop {
      self.0.yield_at(id, St::Blocked(name), name);
      if free() {
        break;
      }
      // somebody took the lock between the decision and now: impossible while one thread runs
      // at a time, but stay safe and re-park
    }
    let mut g = self.0.s.lock();
    g.probes[id] = None;
    g.lock_order.push((id, name));
  }
}

/// Guard that marks the thread finished even if its body panics.
pub struct FinishGuard {
  pub sched: Arc<Sched>,
  pub id: usize,
}

impl Drop for FinishGuard {
  fn drop(&mut self) {
    self.sched.finish(self.id);
  }
}

// ---------------------------------------------------------------------------------------------
// Stateless DFS with iterative preemption bounding over choice prefixes.

pub struct ExploreStats {
  pub executions: u64,
  pub max_choice_points: usize,
  pub bound_completed: Option<usize>,
  pub capped: bool,
}

/// `run(prefix)` executes one schedule and returns its choice trace (it must report violations
/// itself). Explores all schedules with at most `bound` preemptions, iterating the bound from 0.
pub fn explore(
  max_bound: usize,
  max_execs: u64,
  deadline: Instant,
  run: &mut dyn FnMut(&[usize], usize) -> Option<Vec<ChoicePoint>>,
) -> ExploreStats {
  let mut stats = ExploreStats { executions: 0, max_choice_points: 0, bound_completed: None, capped: false };
  let mut seen_total: std::collections::HashSet<Vec<usize>> = std::collections::HashSet::new();
  for bound in 0..=max_bound {
    // DFS stack of prefixes
    let mut stack: Vec<Vec<usize>> = vec![vec![]];
    let mut complete = true;
    while let Some(prefix) = stack.pop() {
      if stats.executions >= max_execs || Instant::now() > deadline {
        stats.capped = true;
        complete = false;
        break;
      }
      let Some(trace) = run(&prefix, bound) else {
        complete = false;
        break;
      };
      let full: Vec<usize> = trace.iter().map(|c| c.chosen).collect();
      let is_new = seen_total.insert(full.clone());
      if is_new {
        stats.executions += 1;
      }
      stats.max_choice_points = stats.max_choice_points.max(trace.len());
      // children: deviate at every point at or after the prefix length
      let mut preempt = 0usize;
      for (i, cp) in trace.iter().enumerate() {
        if i >= prefix.len() {
          for alt in 1..cp.enabled.len() {
            let cost = preempt + if cp.current_enabled { 1 } else { 0 };
            if cost > bound {
              continue;
            }
            let mut child: Vec<usize> = full[..i].to_vec();
            child.push(alt);
            stack.push(child);
          }
        }
        if cp.current_enabled && cp.chosen != 0 {
          preempt += 1;
        }
      }
    }
    if !complete {
      break;
    }
    stats.bound_completed = Some(bound);
  }
  stats
}
