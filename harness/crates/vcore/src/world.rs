//! Small worlds: schemas, documents, index construction helpers, the contents reference model.

use std::collections::BTreeMap;
use std::path::{Path, PathBuf};
use std::sync::atomic::{AtomicU64, Ordering};
use std::sync::Arc;

use anyhow::Result;
use searchlite_core::api::types::{
  Document, IndexOptions, NestedField, NestedProperty, SearchRequest, StorageType,
};
use searchlite_core::api::{Index, IndexReader, IndexWriter};
use searchlite_core::storage::{InMemoryStorage, Storage};
use searchlite_core::Schema;
use serde_json::{json, Map, Value};

static COUNTER: AtomicU64 = AtomicU64::new(0);

pub fn scratch_root() -> PathBuf {
  let base = if Path::new("/dev/shm").is_dir() {
    PathBuf::from("/dev/shm")
  } else {
    std::env::temp_dir()
  };
  base.join(format!("slverif.{}", std::process::id()))
}

/// A scratch directory removed on drop.
pub struct Scratch {
  pub path: PathBuf,
}

impl Scratch {
  pub fn new(tag: &str) -> Scratch {
    let n = COUNTER.fetch_add(1, Ordering::Relaxed);
    let path = scratch_root().join(format!("{tag}.{n}"));
    std::fs::create_dir_all(&path).expect("create scratch dir");
    Scratch { path }
  }
  pub fn sub(&self, name: &str) -> PathBuf {
    self.path.join(name)
  }
}

impl Drop for Scratch {
  fn drop(&mut self) {
    let _ = std::fs::remove_dir_all(&self.path);
  }
}

pub fn cleanup_scratch_root() {
  let _ = std::fs::remove_dir_all(scratch_root());
}

pub fn opts(path: &Path, storage: StorageType) -> IndexOptions {
  IndexOptions {
    path: path.to_path_buf(),
    create_if_missing: false,
    enable_positions: true,
    bm25_k1: 1.2,
    bm25_b: 0.75,
    storage,
    #[cfg(feature = "vectors")]
    vector_defaults: None,
  }
}

pub fn schema(v: Value) -> Schema {
  let s: Schema = serde_json::from_value(v).expect("schema json");
  s.validate_config().expect("schema config");
  s
}

pub fn doc(v: &Value) -> Document {
  let mut fields = BTreeMap::new();
  for (k, val) in v.as_object().expect("doc must be an object") {
    fields.insert(k.clone(), val.clone());
  }
  Document { fields }
}

/// Build a SearchRequest from JSON, filling the required fields with defaults.
pub fn req(v: Value) -> SearchRequest {
  try_req(v).expect("request json")
}

pub fn try_req(mut v: Value) -> Result<SearchRequest> {
  let o = v.as_object_mut().expect("request must be an object");
  o.entry("limit").or_insert(json!(100));
  o.entry("return_stored").or_insert(json!(false));
  o.entry("highlight_field").or_insert(Value::Null);
  o.entry("execution").or_insert(json!("bm25"));
  Ok(serde_json::from_value(v)?)
}

static MEM_COUNTER: AtomicU64 = AtomicU64::new(0);

/// A fresh in-memory index (unique virtual root).
pub fn mem_index(schema: &Schema) -> Index {
  mem_index_opts(schema, true).0
}

pub fn mem_index_opts(schema: &Schema, positions: bool) -> (Index, Arc<InMemoryStorage>, PathBuf) {
  let n = MEM_COUNTER.fetch_add(1, Ordering::Relaxed);
  let root = PathBuf::from(format!("/slverif-mem/{}/{n}", std::process::id()));
  let storage = Arc::new(InMemoryStorage::new(root.clone()));
  let mut o = opts(&root, StorageType::InMemory);
  o.enable_positions = positions;
  let idx = Index::create_with_storage(&root, schema.clone(), o, storage.clone() as Arc<dyn Storage>)
    .expect("create mem index");
  (idx, storage, root)
}

pub fn fs_index(schema: &Schema, dir: &Path) -> Index {
  let o = opts(dir, StorageType::Filesystem);
  Index::create(dir, schema.clone(), o).expect("create fs index")
}

pub fn fs_open(dir: &Path) -> Result<Index> {
  Index::open(opts(dir, StorageType::Filesystem))
}

/// Commit `docs` in consecutive chunks given by `layout` (a composition of docs.len()).
pub fn build_layout(idx: &Index, docs: &[Value], layout: &[usize]) {
  let mut i = 0;
  for &n in layout {
    let mut w = idx.writer().expect("writer");
    for d in &docs[i..i + n] {
      w.add_document(&doc(d)).expect("add");
    }
    w.commit().expect("commit");
    i += n;
  }
  assert_eq!(i, docs.len());
}

pub fn delete_commit(idx: &Index, ids: &[&str]) {
  let mut w = idx.writer().expect("writer");
  for id in ids {
    w.delete_document(id).expect("delete");
  }
  w.commit().expect("commit");
}

/// All compositions of n (ordered lists of positive integers summing to n), simplest first.
pub fn compositions(n: usize) -> Vec<Vec<usize>> {
  fn rec(n: usize, cur: &mut Vec<usize>, out: &mut Vec<Vec<usize>>) {
    if n == 0 {
      out.push(cur.clone());
      return;
    }
    for k in (1..=n).rev() {
      cur.push(k);
      rec(n - k, cur, out);
      cur.pop();
    }
  }
  let mut out = Vec::new();
  if n == 0 {
    return vec![vec![]];
  }
  rec(n, &mut Vec::new(), &mut out);
  out.sort_by_key(|c| c.len());
  out
}

pub fn hit_ids(reader: &IndexReader, r: &SearchRequest) -> Result<Vec<String>> {
  Ok(reader.search(r)?.hits.into_iter().map(|h| h.doc_id).collect())
}

/// match_all with stored fields: id -> stored JSON. Err if the same id appears twice.
pub fn contents(idx: &Index) -> Result<BTreeMap<String, Value>> {
  let reader = idx.reader()?;
  contents_of(&reader)
}

pub fn contents_of(reader: &IndexReader) -> Result<BTreeMap<String, Value>> {
  let r = req(json!({"query": {"type": "match_all"}, "limit": 10000, "return_stored": true}));
  let res = reader.search(&r)?;
  let mut out = BTreeMap::new();
  for h in res.hits {
    let f = h.fields.clone().unwrap_or(Value::Null);
    if out.insert(h.doc_id.clone(), f).is_some() {
      anyhow::bail!("duplicate id {} in match_all", h.doc_id);
    }
  }
  Ok(out)
}

// ---------------------------------------------------------------------------------------------
// Stored projection (README: stored fields only; nested values keep their structure while
// omitting unstored properties, null properties and empty objects).

pub fn stored_projection(schema: &Schema, d: &Value) -> Value {
  let mut out = Map::new();
  let obj = d.as_object().unwrap();
  let idf = schema.doc_id_field();
  for (k, v) in obj {
    if k == idf {
      out.insert(k.clone(), v.clone());
      continue;
    }
    if let Some(n) = schema.nested_fields.iter().find(|n| &n.name == k) {
      if let Some(p) = nested_projection(n, v) {
        out.insert(k.clone(), p);
      }
      continue;
    }
    if let Some(meta) = schema.field_meta(k) {
      if meta.stored && !v.is_null() {
        out.insert(k.clone(), v.clone());
      }
    }
  }
  Value::Object(out)
}

fn nested_projection(n: &NestedField, v: &Value) -> Option<Value> {
  match v {
    Value::Array(a) => {
      let items: Vec<Value> = a.iter().filter_map(|x| nested_projection(n, x)).collect();
      if items.is_empty() {
        None
      } else {
        Some(Value::Array(items))
      }
    }
    Value::Object(m) => {
      let mut out = Map::new();
      for p in &n.fields {
        let Some(raw) = m.get(p.name()) else { continue };
        if raw.is_null() {
          continue;
        }
        match p {
          NestedProperty::Text(f) => {
            if f.stored {
              out.insert(f.name.clone(), raw.clone());
            }
          }
          NestedProperty::Keyword(f) => {
            if f.stored {
              out.insert(f.name.clone(), raw.clone());
            }
          }
          NestedProperty::Numeric(f) => {
            if f.stored {
              out.insert(f.name.clone(), raw.clone());
            }
          }
          NestedProperty::Object(o) => {
            if let Some(c) = nested_projection(o, raw) {
              out.insert(o.name.clone(), c);
            }
          }
        }
      }
      if out.is_empty() {
        None
      } else {
        Some(Value::Object(out))
      }
    }
    _ => None,
  }
}

// ---------------------------------------------------------------------------------------------
// Contents reference model (per-handle queues over one shared durable log).

#[derive(Debug, Clone, PartialEq, Eq, Hash, serde::Serialize, serde::Deserialize)]
pub enum QOp {
  Add(String, String), // id, version name
  Del(String),
}

#[derive(Debug, Clone, PartialEq, Eq, Hash, serde::Serialize, serde::Deserialize)]
pub enum Op {
  New(usize),
  DropH(usize),
  Add(usize, String, String), // handle, id, version
  Del(usize, String),
  Commit(usize),
  Rollback(usize),
  Compact,
  Reopen,
}

impl Op {
  pub fn short(&self) -> String {
    match self {
      Op::New(h) => format!("new{h}"),
      Op::DropH(h) => format!("drop{h}"),
      Op::Add(h, id, v) => format!("add{h}({id}{v})"),
      Op::Del(h, id) => format!("del{h}({id})"),
      Op::Commit(h) => format!("commit{h}"),
      Op::Rollback(h) => format!("rollback{h}"),
      Op::Compact => "compact".into(),
      Op::Reopen => "reopen".into(),
    }
  }
}

pub fn hist_str(h: &[Op]) -> String {
  h.iter().map(|o| o.short()).collect::<Vec<_>>().join(" ")
}

#[derive(Debug, Clone, PartialEq, Eq, Hash)]
pub struct Model {
  /// id -> version name
  pub committed: BTreeMap<String, String>,
  /// the shared durable queue (WAL contents since the last commit / rollback)
  pub log: Vec<QOp>,
  pub handles: Vec<Option<Vec<QOp>>>,
  /// number of segments (structure, for caps only)
  pub compact_ok: bool,
}

impl Model {
  pub fn new(nhandles: usize, compact_ok: bool) -> Model {
    Model {
      committed: BTreeMap::new(),
      log: Vec::new(),
      handles: vec![None; nhandles],
      compact_ok,
    }
  }

  pub fn enabled(&self, op: &Op) -> bool {
    match op {
      Op::New(h) => self.handles[*h].is_none(),
      Op::DropH(h) | Op::Add(h, _, _) | Op::Del(h, _) | Op::Commit(h) | Op::Rollback(h) => {
        self.handles[*h].is_some()
      }
      Op::Compact | Op::Reopen => true,
    }
  }

  pub fn apply_queue(committed: &mut BTreeMap<String, String>, q: &[QOp]) {
    for o in q {
      match o {
        QOp::Add(id, v) => {
          committed.insert(id.clone(), v.clone());
        }
        QOp::Del(id) => {
          committed.remove(id);
        }
      }
    }
  }

  /// Apply an (enabled) op; all ops in the contents alphabet succeed on healthy storage.
  pub fn step(&mut self, op: &Op) {
    match op {
      Op::New(h) => self.handles[*h] = Some(self.log.clone()),
      Op::DropH(h) => self.handles[*h] = None,
      Op::Add(h, id, v) => {
        let q = QOp::Add(id.clone(), v.clone());
        self.log.push(q.clone());
        self.handles[*h].as_mut().unwrap().push(q);
      }
      Op::Del(h, id) => {
        let q = QOp::Del(id.clone());
        self.log.push(q.clone());
        self.handles[*h].as_mut().unwrap().push(q);
      }
      Op::Commit(h) => {
        let q = self.handles[*h].as_mut().unwrap();
        if !q.is_empty() {
          let qq = std::mem::take(q);
          Self::apply_queue(&mut self.committed, &qq);
          self.log.clear();
        }
      }
      Op::Rollback(h) => {
        self.handles[*h].as_mut().unwrap().clear();
        self.log.clear();
      }
      Op::Compact => {}
      Op::Reopen => {
        for h in self.handles.iter_mut() {
          *h = None;
        }
      }
    }
  }
}

/// The live implementation side of a history: an index plus its writer handles.
pub struct Live {
  pub idx: Index,
  pub handles: Vec<Option<IndexWriter>>,
}

impl Live {
  pub fn new(idx: Index, nhandles: usize) -> Live {
    let mut handles = Vec::new();
    for _ in 0..nhandles {
      handles.push(None);
    }
    Live { idx, handles }
  }

  /// Apply one op to the real code. `versions` maps (id, version) -> document JSON.
  /// `reopen` rebuilds the Index object from storage.
  pub fn step(
    &mut self,
    op: &Op,
    versions: &dyn Fn(&str, &str) -> Value,
    reopen: &dyn Fn() -> Result<Index>,
  ) -> Result<()> {
    match op {
      Op::New(h) => {
        self.handles[*h] = Some(self.idx.writer()?);
        Ok(())
      }
      Op::DropH(h) => {
        self.handles[*h] = None;
        Ok(())
      }
      Op::Add(h, id, v) => {
        let d = versions(id, v);
        self.handles[*h].as_mut().unwrap().add_document(&doc(&d))?;
        Ok(())
      }
      Op::Del(h, id) => self.handles[*h].as_mut().unwrap().delete_document(id),
      Op::Commit(h) => self.handles[*h].as_mut().unwrap().commit(),
      Op::Rollback(h) => self.handles[*h].as_mut().unwrap().rollback(),
      Op::Compact => self.idx.compact(),
      Op::Reopen => {
        for h in self.handles.iter_mut() {
          *h = None;
        }
        self.idx = reopen()?;
        Ok(())
      }
    }
  }
}

/// Expected observable contents: id -> stored projection of the committed version.
pub fn expected_contents(
  schema: &Schema,
  committed: &BTreeMap<String, String>,
  versions: &dyn Fn(&str, &str) -> Value,
) -> BTreeMap<String, Value> {
  committed
    .iter()
    .map(|(id, v)| (id.clone(), stored_projection(schema, &versions(id, v))))
    .collect()
}
