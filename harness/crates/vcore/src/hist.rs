//! Shared history machinery: schema S3, document versions, execution of an operation history on
//! the real code with the contents oracle after every step, canonical state keys.

use std::path::PathBuf;
use std::sync::Arc;

use searchlite_core::api::types::StorageType;
use searchlite_core::api::Index;
use searchlite_core::storage::Storage;
use searchlite_core::Schema;
use serde_json::{json, Value};

use crate::world::*;

pub fn schema_s3(compactable: bool) -> Schema {
  // every indexed/fast field is stored when `compactable`; `hidden` is accepted but neither
  // indexed, fast nor stored, so the stored projection differs from the document.
  schema(json!({
    "doc_id_field": "_id",
    "text_fields": [
      {"name": "body", "analyzer": "default", "stored": true, "indexed": true},
      {"name": "note", "analyzer": "default", "stored": compactable, "indexed": true, "nullable": true}
    ],
    "keyword_fields": [
      {"name": "tag", "stored": true, "indexed": true, "fast": true},
      {"name": "hidden", "stored": false, "indexed": false, "fast": false}
    ],
    "numeric_fields": [
      {"name": "n", "i64": true, "fast": true, "stored": true},
      {"name": "f", "i64": false, "fast": true, "stored": true}
    ],
    "nested_fields": [
      {"name": "c", "nullable": true, "fields": [
        {"type": "keyword", "name": "a", "stored": true, "indexed": true, "fast": true},
        {"type": "keyword", "name": "s", "stored": false, "indexed": false, "fast": false, "nullable": true},
        {"type": "numeric", "name": "k", "i64": true, "fast": true, "stored": true, "nullable": true}
      ]}
    ]
  }))
}

/// Versions v1/v2 of an id differ in every field kind.
pub fn version_doc(id: &str, v: &str) -> Value {
  match v {
    "1" => json!({
      "_id": id, "body": format!("alpha {id} one"), "note": "first",
      "tag": ["x", "Y"], "hidden": "h1", "n": 1, "f": 0.5,
      "c": [{"a": "p", "s": "secret", "k": 1}, {"a": "q"}]
    }),
    _ => json!({
      "_id": id, "body": ["beta two", format!("{id} two")],
      "tag": "z", "n": [2, 5], "f": [1.0, 2.5],
      "c": {"a": ["r", "t"], "k": null, "s": null}
    }),
  }
}

#[derive(Clone, Debug)]
pub struct Config {
  pub mem: bool,
  pub positions: bool,
  pub handles: usize,
  pub compactable: bool,
  pub max_depth: usize,
  pub max_segments: usize,
  pub max_queue: usize,
}

impl Config {
  pub fn name(&self) -> String {
    format!(
      "{}-pos{}-h{}-{}{}",
      if self.mem { "mem" } else { "fs" },
      self.positions as u8,
      self.handles,
      if self.compactable { "stored" } else { "unstored" },
      if cfg!(feature = "zstd") { "-zstd" } else { "" }
    )
  }
  pub fn to_json(&self) -> Value {
    json!({"mem": self.mem, "positions": self.positions, "handles": self.handles,
      "compactable": self.compactable, "max_depth": self.max_depth,
      "max_segments": self.max_segments, "max_queue": self.max_queue,
      "zstd": cfg!(feature = "zstd")})
  }
  pub fn from_json(v: &Value) -> Config {
    Config {
      mem: v["mem"].as_bool().unwrap(),
      positions: v["positions"].as_bool().unwrap(),
      handles: v["handles"].as_u64().unwrap() as usize,
      compactable: v["compactable"].as_bool().unwrap(),
      max_depth: v["max_depth"].as_u64().unwrap() as usize,
      max_segments: v["max_segments"].as_u64().unwrap() as usize,
      max_queue: v["max_queue"].as_u64().unwrap() as usize,
    }
  }
}

pub fn alphabet(cfg: &Config) -> Vec<Op> {
  let mut a = Vec::new();
  for h in 0..cfg.handles {
    a.push(Op::New(h));
    for id in ["A", "B"] {
      for v in ["1", "2"] {
        a.push(Op::Add(h, id.into(), v.into()));
      }
    }
    for id in ["A", "B"] {
      a.push(Op::Del(h, id.into()));
    }
    a.push(Op::Commit(h));
    a.push(Op::Rollback(h));
    a.push(Op::DropH(h));
  }
  a.push(Op::Compact);
  a.push(Op::Reopen);
  a
}

/// The environment an execution runs in (storage + how to reopen).
pub struct Env {
  pub schema: Schema,
  pub root: PathBuf,
  /// in-memory or wrapped storage; None = plain FsStorage at `root`
  pub mem: Option<Arc<dyn Storage>>,
  pub positions: bool,
  pub _scratch: Option<Scratch>,
}

impl Env {
  pub fn new(cfg: &Config) -> (Env, Index) {
    let sch = schema_s3(cfg.compactable);
    if cfg.mem {
      let (idx, st, root) = mem_index_opts(&sch, cfg.positions);
      (
        Env { schema: sch, root, mem: Some(st as Arc<dyn Storage>), positions: cfg.positions, _scratch: None },
        idx,
      )
    } else {
      let s = Scratch::new("c04");
      let root = s.sub("idx");
      let mut o = opts(&root, StorageType::Filesystem);
      o.enable_positions = cfg.positions;
      let idx = Index::create(&root, sch.clone(), o).expect("create fs index");
      (
        Env { schema: sch, root, mem: None, positions: cfg.positions, _scratch: Some(s) },
        idx,
      )
    }
  }

  pub fn reopen(&self) -> anyhow::Result<Index> {
    if let Some(st) = &self.mem {
      let mut o = opts(&self.root, StorageType::InMemory);
      o.enable_positions = self.positions;
      Index::open_with_storage(o, st.clone())
    } else {
      let mut o = opts(&self.root, StorageType::Filesystem);
      o.enable_positions = self.positions;
      Index::open(o)
    }
  }

  pub fn read(&self, path: &str) -> anyhow::Result<Vec<u8>> {
    if let Some(st) = &self.mem {
      st.read_to_end(std::path::Path::new(path))
    } else {
      Ok(std::fs::read(path)?)
    }
  }

  pub fn storage(&self) -> Arc<dyn Storage> {
    if let Some(st) = &self.mem {
      st.clone()
    } else {
      Arc::new(searchlite_core::storage::FsStorage::new(self.root.clone()))
    }
  }
}

/// Canonical structure of the committed index: per segment (doc ids in ordinal order, tombstones).
/// Versions are identified through the stored body text, so content is part of the key.
pub fn structure(env: &Env, idx: &Index) -> anyhow::Result<Vec<(Vec<String>, Vec<u32>)>> {
  let m = idx.manifest();
  let mut out = Vec::new();
  for s in &m.segments {
    let meta: Value = serde_json::from_slice(&env.read(&s.paths.meta)?)?;
    let ids: Vec<String> = meta["doc_ids"]
      .as_array()
      .map(|a| a.iter().map(|x| x.as_str().unwrap_or("").to_string()).collect())
      .unwrap_or_default();
    out.push((ids, s.deleted_docs.clone()));
  }
  Ok(out)
}

pub fn wal_records(env: &Env) -> anyhow::Result<Vec<String>> {
  use searchlite_core::wal::{Wal, WalEntry};
  let p = env.root.join("wal.log");
  let st = env.storage();
  let entries = Wal::replay(st.as_ref(), &p)?;
  Ok(
    entries
      .into_iter()
      .map(|e| match e {
        WalEntry::AddDoc(d) => format!(
          "add:{}:{}",
          d.fields.get("_id").and_then(|v| v.as_str()).unwrap_or("?"),
          d.fields.get("body").map(|b| b.to_string()).unwrap_or_default()
        ),
        WalEntry::DeleteDocId(id) => format!("del:{id}"),
        WalEntry::Commit => "commit".to_string(),
      })
      .collect(),
  )
}

pub struct Outcome {
  pub key: String,
  pub model: Model,
  pub nseg: usize,
  pub contents_sig: String,
  pub failure: Option<(Option<&'static str>, String)>,
}

pub type Failure = (Option<&'static str>, String);

/// A step-wise execution of a history on the real code, with the contents oracle after every op.
pub struct Exec {
  pub cfg: Config,
  pub env: Env,
  pub live: Live,
  pub model: Model,
  /// harness-tracked freshness of each handle's live-doc cache: structure snapshot at load time
  snaps: Vec<Option<String>>,
  pub nseg: usize,
  pub contents_sig: String,
  pub steps: usize,
}

impl Exec {
  pub fn new(cfg: &Config) -> Exec {
    let (env, idx) = Env::new(cfg);
    Self::from_parts(cfg, env, idx)
  }

  /// Filesystem index created at a caller-chosen root (the caller owns the directory).
  pub fn new_at(cfg: &Config, root: &std::path::Path) -> Exec {
    let sch = schema_s3(cfg.compactable);
    let mut o = opts(root, StorageType::Filesystem);
    o.enable_positions = cfg.positions;
    let idx = Index::create(root, sch.clone(), o).expect("create fs index");
    let env = Env { schema: sch, root: root.to_path_buf(), mem: None, positions: cfg.positions, _scratch: None };
    Self::from_parts(cfg, env, idx)
  }

  pub fn from_parts_pub(cfg: &Config, env: Env, idx: Index) -> Exec {
    Self::from_parts(cfg, env, idx)
  }

  /// Index created on a caller-supplied storage (e.g. a fault-injecting wrapper).
  pub fn new_with_storage(cfg: &Config, root: &std::path::Path, storage: Arc<dyn Storage>, scratch: Option<Scratch>) -> anyhow::Result<Exec> {
    let sch = schema_s3(cfg.compactable);
    let mut o = opts(root, StorageType::InMemory);
    o.enable_positions = cfg.positions;
    let idx = Index::create_with_storage(root, sch.clone(), o, storage.clone())?;
    let env = Env { schema: sch, root: root.to_path_buf(), mem: Some(storage), positions: cfg.positions, _scratch: scratch };
    Ok(Self::from_parts(cfg, env, idx))
  }

  fn from_parts(cfg: &Config, env: Env, idx: Index) -> Exec {
    Exec {
      cfg: cfg.clone(),
      env,
      live: Live::new(idx, cfg.handles),
      model: Model::new(cfg.handles, cfg.compactable),
      snaps: vec![None; cfg.handles],
      nseg: 0,
      contents_sig: String::new(),
      steps: 0,
    }
  }

  /// Run one op on the real code and on the model; `check` turns the oracles on.
  pub fn step(&mut self, op: &Op, check: bool) -> Result<(), Failure> {
    let i = self.steps;
    self.steps += 1;
    let cfg = &self.cfg;
    let env = &self.env;
    let versions = |id: &str, v: &str| version_doc(id, v);
    let reopen = || env.reopen();
    let nseg_before = self.live.idx.manifest().segments.len();
    let live = &mut self.live;
    let res = crate::catch(|| live.step(op, &versions, &reopen));
    let expect_err = matches!(op, Op::Compact) && !cfg.compactable && nseg_before > 1;
    match res {
      Err(p) => return Err((None, format!("step {i} {} panicked: {p}", op.short()))),
      Ok(Err(e)) if !expect_err => {
        return Err((None, format!("step {i} {} returned Err: {e:#}", op.short())))
      }
      Ok(Ok(())) if expect_err => {
        return Err((None, format!("step {i} compact succeeded although an indexed field is not stored")))
      }
      _ => {}
    }
    self.model.step(op);
    let st = structure(env, &self.live.idx)
      .map_err(|e| (None, format!("step {i}: cannot read segment structure: {e:#}")))?;
    self.nseg = st.len();
    let st_s = format!("{st:?}");
    match op {
      Op::New(h) => self.snaps[*h] = Some(st_s.clone()),
      Op::Commit(h) => self.snaps[*h] = Some(st_s.clone()),
      Op::DropH(h) => self.snaps[*h] = None,
      Op::Reopen => self.snaps.iter_mut().for_each(|s| *s = None),
      _ => {}
    }
    if !check {
      return Ok(());
    }
    // oracle: fresh reader sees exactly the model's committed contents
    let idx = &self.live.idx;
    let got = match crate::catch(|| contents(idx)) {
      Ok(Ok(c)) => c,
      Ok(Err(e)) => return Err((None, format!("step {i} {}: reader failed: {e:#}", op.short()))),
      Err(p) => return Err((None, format!("step {i} {}: reader panicked: {p}", op.short()))),
    };
    let want = expected_contents(&env.schema, &self.model.committed, &versions);
    if got != want {
      return Err((
        None,
        format!(
          "after step {i} {}: contents differ: got {} want {}",
          op.short(),
          serde_json::to_string(&got).unwrap(),
          serde_json::to_string(&want).unwrap()
        ),
      ));
    }
    if matches!(op, Op::Compact) && cfg.compactable && nseg_before > 1 && (st.len() != 1 || !st[0].1.is_empty()) {
      return Err((None, format!("after compact: structure {st:?} is not one clean segment")));
    }
    self.contents_sig = serde_json::to_string(&got).unwrap();
    Ok(())
  }

  pub fn expected(&self) -> std::collections::BTreeMap<String, Value> {
    expected_contents(&self.env.schema, &self.model.committed, &|id: &str, v: &str| version_doc(id, v))
  }

  /// Canonical key of the current state (see DESIGN §2.2 for the merging argument).
  pub fn key(&self) -> String {
    let st = structure(&self.env, &self.live.idx).map(|s| format!("{s:?}")).unwrap_or_default();
    let wal = wal_records(&self.env).unwrap_or_default();
    let hs: Vec<String> = (0..self.cfg.handles)
      .map(|h| match &self.model.handles[h] {
        None => "-".to_string(),
        Some(q) => format!("{:?}|{}", q, self.snaps[h].clone().unwrap_or_default()),
      })
      .collect();
    format!("{st}#{wal:?}#{hs:?}#{:?}", self.model.committed)
  }
}

/// Execute a full history on a fresh index, checking every step; returns the canonical key of
/// the final state, or the first failure.
pub fn execute(cfg: &Config, hist: &[Op]) -> Outcome {
  let mut ex = Exec::new(cfg);
  let mut failure = None;
  for op in hist {
    if let Err(f) = ex.step(op, true) {
      failure = Some(f);
      break;
    }
  }
  let key = if failure.is_none() { ex.key() } else { String::new() };
  Outcome { key, model: ex.model.clone(), nseg: ex.nseg, contents_sig: ex.contents_sig.clone(), failure }
}

/// Which ops the bounded alphabet allows in a state (caps on queue length and segment count).
pub fn op_allowed(cfg: &Config, model: &Model, nseg: usize, op: &Op) -> bool {
  if !model.enabled(op) {
    return false;
  }
  match op {
    Op::Add(h, _, _) | Op::Del(h, _) => {
      model.handles[*h].as_ref().unwrap().len() < cfg.max_queue && model.log.len() < cfg.max_queue + 1
    }
    Op::Commit(h) => {
      let q = model.handles[*h].as_ref().unwrap();
      let adds = q.iter().any(|o| matches!(o, QOp::Add(..)));
      !(adds && nseg >= cfg.max_segments)
    }
    _ => true,
  }
}
