//! Native stand-in for the API surface of wasm-bindgen / js-sys / web-sys / wasm-bindgen-futures /
//! serde-wasm-bindgen that `/repo/searchlite-wasm/src/wasm.rs` uses, backed by an explicit,
//! single-threaded model of a browser event loop and IndexedDB (see `rt`).
//!
//! The consuming crate aliases this crate under all five names
//! (`extern crate wshim as wasm_bindgen;` ...), so every item lives at the crate root.

use std::any::Any;
use std::cell::RefCell;
use std::ops::Deref;
use std::rc::Rc;

pub mod rt;

// ------------------------------------------------------------------------------------------
// JsValue

#[derive(Clone)]
pub enum JsInner {
  Undefined,
  Null,
  Str(String),
  Num(f64),
  Json(serde_json::Value),
  Obj(Rc<dyn Any>),
}

#[derive(Clone)]
#[repr(transparent)]
pub struct JsValue(pub JsInner);

impl std::fmt::Debug for JsValue {
  fn fmt(&self, f: &mut std::fmt::Formatter<'_>) -> std::fmt::Result {
    match &self.0 {
      JsInner::Undefined => write!(f, "undefined"),
      JsInner::Null => write!(f, "null"),
      JsInner::Str(s) => write!(f, "{s:?}"),
      JsInner::Num(n) => write!(f, "{n}"),
      JsInner::Json(v) => write!(f, "{v}"),
      JsInner::Obj(_) => write!(f, "[object]"),
    }
  }
}

impl JsValue {
  pub const NULL: JsValue = JsValue(JsInner::Null);
  pub const UNDEFINED: JsValue = JsValue(JsInner::Undefined);
  pub fn from_str(s: &str) -> JsValue {
    JsValue(JsInner::Str(s.to_string()))
  }
  pub fn is_null(&self) -> bool {
    matches!(self.0, JsInner::Null)
  }
  pub fn is_undefined(&self) -> bool {
    matches!(self.0, JsInner::Undefined)
  }
  pub fn as_string(&self) -> Option<String> {
    match &self.0 {
      JsInner::Str(s) => Some(s.clone()),
      JsInner::Json(serde_json::Value::String(s)) => Some(s.clone()),
      _ => None,
    }
  }
  pub fn obj<T: Any>(v: T) -> JsValue {
    JsValue(JsInner::Obj(Rc::new(v)))
  }
  pub fn downcast<T: Any>(&self) -> Option<&T> {
    match &self.0 {
      JsInner::Obj(o) => o.downcast_ref::<T>(),
      _ => None,
    }
  }
  pub fn same_object(&self, other: &JsValue) -> bool {
    match (&self.0, &other.0) {
      (JsInner::Obj(a), JsInner::Obj(b)) => Rc::ptr_eq(a, b),
      _ => false,
    }
  }
}

impl From<&str> for JsValue {
  fn from(s: &str) -> Self {
    JsValue::from_str(s)
  }
}

impl From<String> for JsValue {
  fn from(s: String) -> Self {
    JsValue(JsInner::Str(s))
  }
}

/// Types that are transparent wrappers around a JsValue.
pub trait JsCast: Sized + AsRef<JsValue> + Into<JsValue> {
  fn instanceof(val: &JsValue) -> bool;
  fn unchecked_from_js(val: JsValue) -> Self;
  fn unchecked_from_js_ref(val: &JsValue) -> &Self;

  fn dyn_into<T: JsCast>(self) -> Result<T, Self> {
    if T::instanceof(self.as_ref()) {
      Ok(T::unchecked_from_js(self.into()))
    } else {
      Err(self)
    }
  }
  fn dyn_ref<T: JsCast>(&self) -> Option<&T> {
    if T::instanceof(self.as_ref()) {
      Some(T::unchecked_from_js_ref(self.as_ref()))
    } else {
      None
    }
  }
  fn unchecked_ref<T: JsCast>(&self) -> &T {
    T::unchecked_from_js_ref(self.as_ref())
  }
  fn unchecked_into<T: JsCast>(self) -> T {
    T::unchecked_from_js(self.into())
  }
}

impl AsRef<JsValue> for JsValue {
  fn as_ref(&self) -> &JsValue {
    self
  }
}

impl JsCast for JsValue {
  fn instanceof(_val: &JsValue) -> bool {
    true
  }
  fn unchecked_from_js(val: JsValue) -> Self {
    val
  }
  fn unchecked_from_js_ref(val: &JsValue) -> &Self {
    val
  }
}

macro_rules! js_type {
  ($name:ident, $pred:expr) => {
    #[derive(Clone, Debug)]
    #[repr(transparent)]
    pub struct $name(pub JsValue);
    impl AsRef<JsValue> for $name {
      fn as_ref(&self) -> &JsValue {
        &self.0
      }
    }
    impl From<$name> for JsValue {
      fn from(v: $name) -> JsValue {
        v.0
      }
    }
    impl Deref for $name {
      type Target = JsValue;
      fn deref(&self) -> &JsValue {
        &self.0
      }
    }
    impl JsCast for $name {
      fn instanceof(val: &JsValue) -> bool {
        let f: fn(&JsValue) -> bool = $pred;
        f(val)
      }
      fn unchecked_from_js(val: JsValue) -> Self {
        $name(val)
      }
      fn unchecked_from_js_ref(val: &JsValue) -> &Self {
        // SAFETY: repr(transparent) over JsValue
        unsafe { &*(val as *const JsValue as *const $name) }
      }
    }
  };
}

// ------------------------------------------------------------------------------------------
// closure / prelude

pub type EventFn = Rc<RefCell<Box<dyn FnMut(Event)>>>;

pub struct FunctionData(pub EventFn);

js_type!(Function, |v| v.downcast::<FunctionData>().is_some());

pub mod closure {
  use super::*;

  pub struct Closure<T: ?Sized> {
    js: JsValue,
    _p: std::marker::PhantomData<Box<T>>,
  }

  impl Closure<dyn FnMut(Event)> {
    pub fn wrap(f: Box<dyn FnMut(Event)>) -> Self {
      Closure { js: JsValue::obj(FunctionData(Rc::new(RefCell::new(f)))), _p: std::marker::PhantomData }
    }
  }

  impl<T: ?Sized> AsRef<JsValue> for Closure<T> {
    fn as_ref(&self) -> &JsValue {
      &self.js
    }
  }
}

pub mod prelude {
  pub use crate::closure::Closure;
  pub use crate::{JsCast, JsValue};
  pub use wshim_macro::wasm_bindgen;
}

// ------------------------------------------------------------------------------------------
// js_sys

pub struct GlobalData;
js_type!(Object, |v| matches!(v.0, JsInner::Obj(_)));

pub fn global() -> Object {
  Object(JsValue::obj(GlobalData))
}

pub struct Reflect;

impl Reflect {
  pub fn get(target: &JsValue, key: &JsValue) -> Result<JsValue, JsValue> {
    if target.downcast::<GlobalData>().is_some() {
      if key.as_string().as_deref() == Some("indexedDB") {
        return Ok(JsValue::obj(FactoryData));
      }
      return Ok(JsValue::UNDEFINED);
    }
    Err(JsValue::from_str("Reflect.get: unsupported target"))
  }
}

pub struct ArrayData(pub RefCell<Vec<JsValue>>);
js_type!(Array, |v| v.downcast::<ArrayData>().is_some());

impl Array {
  #[allow(clippy::new_without_default)]
  pub fn new() -> Array {
    Array(JsValue::obj(ArrayData(RefCell::new(Vec::new()))))
  }
  pub fn from_vec(v: Vec<JsValue>) -> Array {
    Array(JsValue::obj(ArrayData(RefCell::new(v))))
  }
  pub fn iter(&self) -> std::vec::IntoIter<JsValue> {
    self.0.downcast::<ArrayData>().map(|a| a.0.borrow().clone()).unwrap_or_default().into_iter()
  }
  pub fn length(&self) -> u32 {
    self.0.downcast::<ArrayData>().map(|a| a.0.borrow().len() as u32).unwrap_or(0)
  }
}

pub struct BytesData(pub Vec<u8>);
js_type!(Uint8Array, |v| v.downcast::<BytesData>().is_some());

impl Uint8Array {
  pub fn new(v: &JsValue) -> Uint8Array {
    match v.downcast::<BytesData>() {
      Some(b) => Uint8Array(JsValue::obj(BytesData(b.0.clone()))),
      None => Uint8Array(JsValue::obj(BytesData(Vec::new()))),
    }
  }
  pub fn to_vec(&self) -> Vec<u8> {
    self.0.downcast::<BytesData>().map(|b| b.0.clone()).unwrap_or_default()
  }
}

impl From<&[u8]> for Uint8Array {
  fn from(s: &[u8]) -> Self {
    Uint8Array(JsValue::obj(BytesData(s.to_vec())))
  }
}

// ------------------------------------------------------------------------------------------
// web_sys

pub mod console {
  use super::JsValue;
  pub fn error_1(v: &JsValue) {
    crate::rt::console_line(format!("error: {v:?}"));
  }
  pub fn warn_1(v: &JsValue) {
    crate::rt::console_line(format!("warn: {v:?}"));
  }
  pub fn log_1(v: &JsValue) {
    crate::rt::console_line(format!("log: {v:?}"));
  }
}

pub struct FactoryData;
js_type!(IdbFactory, |v| v.downcast::<FactoryData>().is_some());

/// Shared state of an IDBRequest / IDBOpenDBRequest.
pub struct RequestData {
  pub id: usize,
  pub open: bool,
  pub result: RefCell<Option<JsValue>>,
  pub error: RefCell<Option<JsValue>>,
  pub onsuccess: RefCell<Option<EventFn>>,
  pub onerror: RefCell<Option<EventFn>>,
  pub onupgradeneeded: RefCell<Option<EventFn>>,
}

js_type!(IdbRequest, |v| v.downcast::<RequestData>().is_some());
js_type!(IdbOpenDbRequest, |v| v.downcast::<RequestData>().map(|r| r.open).unwrap_or(false));
js_type!(EventTarget, |v| matches!(v.0, JsInner::Obj(_)));

impl From<IdbOpenDbRequest> for IdbRequest {
  fn from(r: IdbOpenDbRequest) -> IdbRequest {
    IdbRequest(r.0)
  }
}

pub struct DomExceptionData(pub String);
js_type!(DomException, |v| v.downcast::<DomExceptionData>().is_some());

impl From<Option<DomException>> for JsValue {
  fn from(v: Option<DomException>) -> JsValue {
    match v {
      Some(d) => d.0,
      None => JsValue::NULL,
    }
  }
}

fn func_of(f: Option<&Function>) -> Option<EventFn> {
  f.and_then(|f| f.0.downcast::<FunctionData>().map(|d| d.0.clone()))
}

impl IdbRequest {
  fn data(&self) -> &RequestData {
    self.0.downcast::<RequestData>().expect("IdbRequest")
  }
  pub fn set_onsuccess(&self, f: Option<&Function>) {
    *self.data().onsuccess.borrow_mut() = func_of(f);
  }
  pub fn set_onerror(&self, f: Option<&Function>) {
    *self.data().onerror.borrow_mut() = func_of(f);
  }
  pub fn result(&self) -> Result<JsValue, JsValue> {
    match self.data().result.borrow().clone() {
      Some(v) => Ok(v),
      None => Err(JsValue::from_str("InvalidStateError: request not finished")),
    }
  }
  pub fn error(&self) -> Result<Option<DomException>, JsValue> {
    Ok(self.data().error.borrow().clone().map(DomException))
  }
}

impl IdbOpenDbRequest {
  fn data(&self) -> &RequestData {
    self.0.downcast::<RequestData>().expect("IdbOpenDbRequest")
  }
  pub fn set_onupgradeneeded(&self, f: Option<&Function>) {
    *self.data().onupgradeneeded.borrow_mut() = func_of(f);
  }
  pub fn result(&self) -> Result<JsValue, JsValue> {
    IdbRequest(self.0.clone()).result()
  }
}

impl IdbFactory {
  pub fn open_with_u32(&self, name: &str, version: u32) -> Result<IdbOpenDbRequest, JsValue> {
    Ok(IdbOpenDbRequest(rt::idb_open(name, version)))
  }
}

pub struct DatabaseData {
  pub name: String,
}
js_type!(IdbDatabase, |v| v.downcast::<DatabaseData>().is_some());

#[derive(Clone, Copy, Debug, PartialEq, Eq)]
pub enum IdbTransactionMode {
  Readonly,
  Readwrite,
}

impl IdbDatabase {
  fn data(&self) -> &DatabaseData {
    self.0.downcast::<DatabaseData>().expect("IdbDatabase")
  }
  pub fn create_object_store(&self, name: &str) -> Result<IdbObjectStore, JsValue> {
    rt::idb_create_store(&self.data().name, name)?;
    Ok(IdbObjectStore(JsValue::obj(StoreData { db: self.data().name.clone(), store: name.to_string(), tx: usize::MAX })))
  }
  pub fn transaction_with_str_and_mode(&self, store: &str, mode: IdbTransactionMode) -> Result<IdbTransaction, JsValue> {
    let id = rt::idb_begin(&self.data().name, store, mode)?;
    Ok(IdbTransaction(JsValue::obj(TransactionData { db: self.data().name.clone(), id })))
  }
}

pub struct TransactionData {
  pub db: String,
  pub id: usize,
}
js_type!(IdbTransaction, |v| v.downcast::<TransactionData>().is_some());

impl IdbTransaction {
  pub fn object_store(&self, name: &str) -> Result<IdbObjectStore, JsValue> {
    let d = self.0.downcast::<TransactionData>().expect("IdbTransaction");
    rt::idb_check_store(&d.db, name)?;
    Ok(IdbObjectStore(JsValue::obj(StoreData { db: d.db.clone(), store: name.to_string(), tx: d.id })))
  }
}

pub struct StoreData {
  pub db: String,
  pub store: String,
  pub tx: usize,
}
js_type!(IdbObjectStore, |v| v.downcast::<StoreData>().is_some());

impl IdbObjectStore {
  fn data(&self) -> &StoreData {
    self.0.downcast::<StoreData>().expect("IdbObjectStore")
  }
  pub fn get_all_keys(&self) -> Result<IdbRequest, JsValue> {
    Ok(IdbRequest(rt::idb_request(self.data().tx, rt::ReqKind::GetAllKeys)?))
  }
  pub fn get_all(&self) -> Result<IdbRequest, JsValue> {
    Ok(IdbRequest(rt::idb_request(self.data().tx, rt::ReqKind::GetAll)?))
  }
  pub fn put_with_key(&self, value: &JsValue, key: &JsValue) -> Result<IdbRequest, JsValue> {
    let k = key.as_string().ok_or_else(|| JsValue::from_str("DataError: key must be a string in this model"))?;
    let bytes = value.downcast::<BytesData>().map(|b| b.0.clone()).ok_or_else(|| JsValue::from_str("DataCloneError: value must be a Uint8Array in this model"))?;
    Ok(IdbRequest(rt::idb_request(self.data().tx, rt::ReqKind::Put(k, bytes))?))
  }
  pub fn delete(&self, key: &JsValue) -> Result<IdbRequest, JsValue> {
    let k = key.as_string().ok_or_else(|| JsValue::from_str("DataError: key must be a string in this model"))?;
    Ok(IdbRequest(rt::idb_request(self.data().tx, rt::ReqKind::Delete(k))?))
  }
}

pub struct EventData {
  pub target: JsValue,
}
js_type!(Event, |v| v.downcast::<EventData>().is_some());

impl Event {
  pub fn target(&self) -> Option<EventTarget> {
    self.0.downcast::<EventData>().map(|e| EventTarget(e.target.clone()))
  }
}

// ------------------------------------------------------------------------------------------
// wasm_bindgen_futures

pub fn spawn_local<F: std::future::Future<Output = ()> + 'static>(f: F) {
  rt::spawn(Box::pin(f));
}

// ------------------------------------------------------------------------------------------
// serde_wasm_bindgen

#[derive(Debug)]
pub struct Error(pub String);

impl std::fmt::Display for Error {
  fn fmt(&self, f: &mut std::fmt::Formatter<'_>) -> std::fmt::Result {
    write!(f, "{}", self.0)
  }
}

pub fn to_value<T: serde::Serialize>(v: &T) -> Result<JsValue, Error> {
  serde_json::to_value(v).map(|j| JsValue(JsInner::Json(j))).map_err(|e| Error(e.to_string()))
}

pub fn from_value<T: serde::de::DeserializeOwned>(v: JsValue) -> Result<T, Error> {
  let j = match v.0 {
    JsInner::Json(j) => j,
    JsInner::Str(s) => serde_json::Value::String(s),
    JsInner::Null | JsInner::Undefined => serde_json::Value::Null,
    JsInner::Num(n) => serde_json::json!(n),
    JsInner::Obj(_) => return Err(Error("cannot deserialize a host object".into())),
  };
  serde_json::from_value(j).map_err(|e| Error(e.to_string()))
}
