//! Explicit model of a browser page: a single-threaded event loop (microtasks = spawned futures,
//! drained completely after every macrotask) and IndexedDB (transactions created synchronously,
//! started in creation order subject to the read-write exclusion rule, one request completion per
//! macrotask, commit as its own macrotask once no request is pending; closing the page aborts
//! every transaction that has not committed).
//!
//! Nothing here chooses an order: the explorer asks for the enabled events and delivers one.

use std::cell::RefCell;
use std::collections::{BTreeMap, VecDeque};
use std::future::Future;
use std::pin::Pin;
use std::sync::{Arc, Mutex};
use std::task::{Context, Poll, Wake, Waker};

use crate::*;

#[derive(Clone, Debug, Default, PartialEq, Eq, Hash)]
pub struct Db {
  pub version: u32,
  pub stores: BTreeMap<String, BTreeMap<String, Vec<u8>>>,
}

/// What survives a page close.
#[derive(Clone, Debug, Default, PartialEq, Eq, Hash)]
pub struct Durable {
  pub dbs: BTreeMap<String, Db>,
}

#[derive(Clone, Debug)]
pub enum ReqKind {
  GetAllKeys,
  GetAll,
  Put(String, Vec<u8>),
  Delete(String),
}

struct Req {
  js: JsValue,
  kind: ReqKind,
}

struct Tx {
  id: usize,
  db: String,
  store: String,
  mode: IdbTransactionMode,
  pending: VecDeque<Req>,
  overlay: Vec<(String, Option<Vec<u8>>)>,
  finished: bool,
}

struct OpenReq {
  js: JsValue,
  name: String,
  version: u32,
}

#[derive(Clone, Debug, PartialEq, Eq, Hash)]
pub enum EventChoice {
  OpenDone,
  ReqDone(usize),
  TxCommit(usize),
}

type Task = Pin<Box<dyn Future<Output = ()>>>;

struct Page {
  durable: Durable,
  tasks: Vec<Option<Task>>,
  opens: VecDeque<OpenReq>,
  txs: Vec<Tx>,
  console: Vec<String>,
  committed: usize,
  closing: bool,
  next_req: usize,
}

thread_local! {
  static PAGE: RefCell<Option<Page>> = const { RefCell::new(None) };
  static READY: Arc<Mutex<VecDeque<usize>>> = Arc::new(Mutex::new(VecDeque::new()));
}

fn with_page<T>(f: impl FnOnce(&mut Page) -> T) -> T {
  PAGE.with(|p| {
    let mut g = p.borrow_mut();
    let page = g.as_mut().expect("no page is open (rt::new_page)");
    f(page)
  })
}

pub fn new_page(durable: Durable) {
  READY.with(|r| r.lock().unwrap().clear());
  PAGE.with(|p| {
    *p.borrow_mut() = Some(Page { durable, tasks: Vec::new(), opens: VecDeque::new(), txs: Vec::new(), console: Vec::new(), committed: 0, closing: false, next_req: 0 })
  });
}

/// Close the page: uncommitted transactions are aborted, every task and handler is dropped.
pub fn close_page() -> Durable {
  let (tasks, opens, txs) = with_page(|p| {
    p.closing = true;
    (std::mem::take(&mut p.tasks), std::mem::take(&mut p.opens), std::mem::take(&mut p.txs))
  });
  drop(tasks);
  drop(opens);
  drop(txs);
  let page = PAGE.with(|p| p.borrow_mut().take()).expect("page");
  READY.with(|r| r.lock().unwrap().clear());
  page.durable
}

pub fn page_open() -> bool {
  PAGE.with(|p| p.borrow().is_some())
}

pub fn durable_snapshot() -> Durable {
  with_page(|p| p.durable.clone())
}

pub fn committed_transactions() -> usize {
  with_page(|p| p.committed)
}

pub fn console_line(s: String) {
  PAGE.with(|p| {
    if let Some(page) = p.borrow_mut().as_mut() {
      page.console.push(s);
    }
  })
}

pub fn console_lines() -> Vec<String> {
  with_page(|p| p.console.clone())
}

// ---- executor ---------------------------------------------------------------------------------

struct TaskWaker {
  id: usize,
  ready: Arc<Mutex<VecDeque<usize>>>,
}

impl Wake for TaskWaker {
  fn wake(self: Arc<Self>) {
    self.ready.lock().unwrap().push_back(self.id);
  }
}

pub fn spawn(f: Task) {
  let closing = PAGE.with(|p| p.borrow().as_ref().map(|pg| pg.closing).unwrap_or(true));
  if closing {
    drop(f);
    return;
  }
  let id = with_page(|p| {
    p.tasks.push(Some(f));
    p.tasks.len() - 1
  });
  READY.with(|r| r.lock().unwrap().push_back(id));
}

/// Drain the microtask queue completely.
pub fn run_microtasks() {
  loop {
    let next = READY.with(|r| r.lock().unwrap().pop_front());
    let Some(id) = next else { break };
    let task = with_page(|p| p.tasks.get_mut(id).and_then(|t| t.take()));
    let Some(mut task) = task else { continue };
    let ready = READY.with(|r| r.clone());
    let waker = Waker::from(Arc::new(TaskWaker { id, ready }));
    let mut cx = Context::from_waker(&waker);
    match task.as_mut().poll(&mut cx) {
      Poll::Ready(()) => {}
      Poll::Pending => {
        let still_open = PAGE.with(|p| p.borrow().as_ref().map(|pg| !pg.closing).unwrap_or(false));
        if still_open {
          with_page(|p| p.tasks[id] = Some(task));
        }
      }
    }
  }
}

pub fn live_tasks() -> usize {
  with_page(|p| p.tasks.iter().filter(|t| t.is_some()).count())
}

// ---- IndexedDB --------------------------------------------------------------------------------

fn new_request(open: bool) -> JsValue {
  let id = with_page(|p| {
    p.next_req += 1;
    p.next_req
  });
  JsValue::obj(RequestData {
    id,
    open,
    result: RefCell::new(None),
    error: RefCell::new(None),
    onsuccess: RefCell::new(None),
    onerror: RefCell::new(None),
    onupgradeneeded: RefCell::new(None),
  })
}

pub fn idb_open(name: &str, version: u32) -> JsValue {
  let js = new_request(true);
  with_page(|p| p.opens.push_back(OpenReq { js: js.clone(), name: name.to_string(), version }));
  js
}

pub fn idb_create_store(db: &str, store: &str) -> Result<(), JsValue> {
  with_page(|p| {
    let d = p.durable.dbs.entry(db.to_string()).or_default();
    if d.stores.contains_key(store) {
      return Err(JsValue::from_str("ConstraintError: object store exists"));
    }
    d.stores.insert(store.to_string(), BTreeMap::new());
    Ok(())
  })
}

pub fn idb_check_store(db: &str, store: &str) -> Result<(), JsValue> {
  with_page(|p| match p.durable.dbs.get(db).and_then(|d| d.stores.get(store)) {
    Some(_) => Ok(()),
    None => Err(JsValue::from_str("NotFoundError: object store not found")),
  })
}

pub fn idb_begin(db: &str, store: &str, mode: IdbTransactionMode) -> Result<usize, JsValue> {
  idb_check_store(db, store)?;
  Ok(with_page(|p| {
    let id = p.txs.len();
    p.txs.push(Tx { id, db: db.to_string(), store: store.to_string(), mode, pending: VecDeque::new(), overlay: Vec::new(), finished: false });
    id
  }))
}

pub fn idb_request(tx: usize, kind: ReqKind) -> Result<JsValue, JsValue> {
  if tx == usize::MAX {
    return Err(JsValue::from_str("InvalidStateError: store is not bound to a transaction"));
  }
  let js = new_request(false);
  with_page(|p| {
    let t = &mut p.txs[tx];
    if t.finished {
      return Err(JsValue::from_str("TransactionInactiveError"));
    }
    if matches!(kind, ReqKind::Put(..) | ReqKind::Delete(..)) && t.mode == IdbTransactionMode::Readonly {
      return Err(JsValue::from_str("ReadOnlyError"));
    }
    t.pending.push_back(Req { js: js.clone(), kind });
    Ok(())
  })?;
  Ok(js)
}

fn started(p: &Page, i: usize) -> bool {
  let t = &p.txs[i];
  for u in p.txs[..i].iter() {
    if u.finished || u.db != t.db || u.store != t.store {
      continue;
    }
    if t.mode == IdbTransactionMode::Readwrite || u.mode == IdbTransactionMode::Readwrite {
      return false;
    }
  }
  true
}

/// Events the browser may deliver next (each is one macrotask).
pub fn enabled_events() -> Vec<EventChoice> {
  with_page(|p| {
    let mut out = Vec::new();
    if !p.opens.is_empty() {
      out.push(EventChoice::OpenDone);
    }
    for i in 0..p.txs.len() {
      if p.txs[i].finished || !started(p, i) {
        continue;
      }
      if p.txs[i].pending.is_empty() {
        out.push(EventChoice::TxCommit(i));
      } else {
        out.push(EventChoice::ReqDone(i));
      }
    }
    out
  })
}

fn fire(handler: Option<EventFn>, target: &JsValue) {
  if let Some(h) = handler {
    let ev = Event(JsValue::obj(EventData { target: target.clone() }));
    (h.borrow_mut())(ev);
  }
}

fn view(p: &Page, t: &Tx) -> BTreeMap<String, Vec<u8>> {
  let mut m = p.durable.dbs.get(&t.db).and_then(|d| d.stores.get(&t.store)).cloned().unwrap_or_default();
  for (k, v) in &t.overlay {
    match v {
      Some(b) => {
        m.insert(k.clone(), b.clone());
      }
      None => {
        m.remove(k);
      }
    }
  }
  m
}

/// Deliver one event (a macrotask), then drain the microtask queue.
pub fn deliver(ev: &EventChoice) {
  match ev {
    EventChoice::OpenDone => {
      let o = with_page(|p| p.opens.pop_front()).expect("open request");
      let needs_upgrade = with_page(|p| {
        let d = p.durable.dbs.entry(o.name.clone()).or_default();
        let up = d.version < o.version;
        if up {
          d.version = o.version;
        }
        up
      });
      let req = o.js.downcast::<RequestData>().expect("request data");
      *req.result.borrow_mut() = Some(JsValue::obj(DatabaseData { name: o.name.clone() }));
      if needs_upgrade {
        let h = req.onupgradeneeded.borrow().clone();
        fire(h, &o.js);
        run_microtasks();
      }
      let h = req.onsuccess.borrow().clone();
      fire(h, &o.js);
    }
    EventChoice::ReqDone(i) => {
      let (js, result) = with_page(|p| {
        let r = p.txs[*i].pending.pop_front().expect("pending request");
        let result = match &r.kind {
          ReqKind::Put(k, v) => {
            p.txs[*i].overlay.push((k.clone(), Some(v.clone())));
            JsValue::from_str(k)
          }
          ReqKind::Delete(k) => {
            p.txs[*i].overlay.push((k.clone(), None));
            JsValue::UNDEFINED
          }
          ReqKind::GetAllKeys => {
            let m = view(p, &p.txs[*i]);
            Array::from_vec(m.keys().map(|k| JsValue::from_str(k)).collect()).0
          }
          ReqKind::GetAll => {
            let m = view(p, &p.txs[*i]);
            Array::from_vec(m.values().map(|v| JsValue::obj(BytesData(v.clone()))).collect()).0
          }
        };
        (r.js, result)
      });
      let req = js.downcast::<RequestData>().expect("request data");
      *req.result.borrow_mut() = Some(result);
      let h = req.onsuccess.borrow().clone();
      fire(h, &js);
    }
    EventChoice::TxCommit(i) => {
      with_page(|p| {
        let overlay = std::mem::take(&mut p.txs[*i].overlay);
        let (db, store) = (p.txs[*i].db.clone(), p.txs[*i].store.clone());
        if let Some(s) = p.durable.dbs.get_mut(&db).and_then(|d| d.stores.get_mut(&store)) {
          for (k, v) in overlay {
            match v {
              Some(b) => {
                s.insert(k, b);
              }
              None => {
                s.remove(&k);
              }
            }
          }
        }
        p.txs[*i].finished = true;
        p.committed += 1;
      });
    }
  }
  run_microtasks();
}

/// Whether transaction `i` is a read-write transaction (used by the explorer for statistics).
pub fn tx_is_rw(i: usize) -> bool {
  with_page(|p| p.txs[i].mode == IdbTransactionMode::Readwrite)
}
